import DW.Lemmas.PartialEq

/-! # Loops over the fields of one variant (Hash, Debug, Clone, Default, Zeroize) -/

namespace DW

variable {α : Type}

/-- Environment of a one-operand method. -/
def env1 (a : Val α) : Env α := [(.self_, a), (.f, .opaque), (.state, .opaque)]

theorem runMethod_one (cx : SemCtx α) (body : Expr) (a : Val α) :
    runMethod cx body a none = (eval cx (env1 a) [] body).finish := rfl

@[simp] theorem env1_self (a : Val α) : (env1 a).lookup .self_ = some a := rfl
@[simp] theorem env1_f (a : Val α) : (env1 a).lookup .f = some .opaque := rfl
@[simp] theorem env1_state (a : Val α) : (env1 a).lookup .state = some .opaque := rfl

theorem leafAt_of (fs : List (Val α)) (i : Nat) (a : α) (h : fs[i]? = some (.leaf a)) :
    leafAt fs i = some a := by simp [leafAt, h]

theorem map_iterFields {β} (d : Data) (t : Trait) (g : Nat → β) :
    (d.iterFields t).map (fun p => g p.1) = (d.relevantIdx t).map g := by
  rw [← Data.iterFields_fst, List.map_map]
  rfl

/-- A run of `expr_i;` statements, each logging one event for the leaf of field `i`. -/
theorem evalStmts_fieldLoop (cx : SemCtx α) (env : Env α) (fs : List (Val α))
    (mk : Nat → Expr) (ev : Nat → α → Event α)
    (hstep : ∀ i a log, fs[i]? = some (.leaf a) →
      ∃ v, eval cx env log (mk i) = .ok (v, log ++ [ev i a]))
    (hleaf : ∀ v ∈ fs, ∃ a, v = .leaf a)
    (is : List Nat) (his : ∀ i ∈ is, i < fs.length) (log : Log α) (rest : List Stmt) :
    evalStmts cx env log (is.map (fun i => Stmt.semi (mk i)) ++ rest) =
      evalStmts cx env (log ++ leafEvents fs is ev) rest := by
  induction is generalizing log with
  | nil => simp [leafEvents]
  | cons i is ih =>
    have hi := his i (by simp)
    obtain ⟨a, ha⟩ := hleaf fs[i] (List.getElem_mem _)
    have hget : fs[i]? = some (.leaf a) := by simp [List.getElem?_eq_getElem hi, ha]
    obtain ⟨v, hv⟩ := hstep i a log hget
    simp only [List.map_cons, List.cons_append, evalStmts, hv, Out.bind_ok]
    rw [ih (fun j hj => his j (by simp [hj]))]
    simp [leafEvents, leafAt_of fs i a hget, List.append_assoc]

/-- The destructuring pattern of another variant does not match. -/
theorem matchPat_ctor_ne (k k' : Nat) (s : Side) (m : Bool) (fs : List (Val α)) (h : k' ≠ k) :
    matchPat (.ctor k' s m) (Val.adt k fs) = (none : Option (Env α)) := by
  simp [matchPat, h]

theorem matchPat_ctor_same (k : Nat) (s : Side) (m : Bool) (fs : List (Val α)) :
    matchPat (.ctor k s m) (Val.adt k fs) = some (ctorBinds s m k fs) := by
  simp [matchPat]

/-- Lookups in the environment of a `self` arm. -/
theorem selfArm_field (k i : Nat) (m : Bool) (fs : List (Val α)) (env : Env α) (h : i < fs.length) :
    (ctorBinds .self_ m k fs ++ env).lookup (.selfField k i) =
      some (if m then .place i fs[i] else fs[i]) := by
  have := lookup_ctorBinds_hit .self_ m k i fs env h
  simpa [fieldVar] using this

theorem selfArm_pass (k : Nat) (m : Bool) (fs : List (Val α)) (env : Env α) (x : Var)
    (hx : ∀ i, Var.selfField k i ≠ x) :
    (ctorBinds .self_ m k fs ++ env).lookup x = env.lookup x :=
  lookup_ctorBinds_miss .self_ m k fs env x (by intro j; simpa [fieldVar] using hx j)

end DW

namespace DW

variable {α : Type}

/-- `Clone`, `Copy` and `Default` are never skipped (C06 `unskippable`). -/
theorem Skip.covers_unskippable (s : Skip) (t : Trait) (ht : t = .clone ∨ t = .copy ∨ t = .default) :
    s.covers t = false := by
  cases s with
  | none => rfl
  | all => rcases ht with rfl | rfl | rfl <;> rfl
  | traits gs =>
    simp only [Skip.covers, List.any_eq_false]
    intro g _
    rcases ht with rfl | rfl | rfl <;> cases g <;> simp [SkipGroup.covers]

theorem relevantIdx_unskippable (d : Data) (t : Trait) (ht : t = .clone ∨ t = .copy ∨ t = .default) :
    d.relevantIdx t = List.range d.fields.length := by
  unfold Data.relevantIdx
  rw [List.filter_eq_self]
  intro i hi
  simp only [List.mem_range] at hi
  simp [List.getElem?_eq_getElem hi, Data.relevant, Skip.covers_unskippable _ t ht]

/-- Only variant `k` contributes. -/
theorem flatMap_select {β} (f : Nat → Data → List β) (k : Nat)
    (hother : ∀ j d', j ≠ k → f j d' = [])
    (vs : List Data) (k0 : Nat) :
    ((vs.zipIdx k0).map fun (d, j) => (j, d)).flatMap (fun (j, d) => f j d) =
      match (if k0 ≤ k then vs[k - k0]? else none) with
      | some d => f k d
      | none => [] := by
  induction vs generalizing k0 with
  | nil => simp
  | cons d vs ih =>
    simp only [List.zipIdx_cons, List.map_cons, List.flatMap_cons]
    rw [ih (k0 + 1)]
    by_cases hk : k0 = k
    · subst hk
      have : ¬ (k0 + 1 ≤ k0) := by omega
      simp [this]
    · rw [hother k0 d hk, List.nil_append]
      by_cases hle : k0 ≤ k
      · have hlt : k0 + 1 ≤ k := by omega
        have e : k - k0 = (k - (k0 + 1)) + 1 := by omega
        simp only [hle, hlt, if_true]
        rw [e, List.getElem?_cons_succ]
      · have : ¬ (k0 + 1 ≤ k) := by omega
        simp [hle, this]

theorem flatMap_indexed_select {β} (it : Item) (f : Nat → Data → List β) (k : Nat) (d : Data)
    (hd : it.variants[k]? = some d) (hother : ∀ j d', j ≠ k → it.variants[j]? = some d' → f j d' = []) :
    it.indexed.flatMap (fun (j, d) => f j d) = f k d := by
  -- the side condition only speaks about the variant that stands at position `j`
  have key : ∀ (vs : List Data) (k0 : Nat), (∀ j d', j ≠ k → k0 ≤ j → vs[j - k0]? = some d' → f j d' = []) →
      ((vs.zipIdx k0).map fun (d, j) => (j, d)).flatMap (fun (j, d) => f j d) =
        match (if k0 ≤ k then vs[k - k0]? else none) with
        | some d => f k d
        | none => [] := by
    intro vs
    induction vs with
    | nil => intro k0 _; simp
    | cons d0 vs ih =>
      intro k0 h
      simp only [List.zipIdx_cons, List.map_cons, List.flatMap_cons]
      rw [ih (k0 + 1) (fun j d' hj hle hm => h j d' hj (by omega) (by
        have e : j - k0 = (j - (k0 + 1)) + 1 := by omega
        rw [e, List.getElem?_cons_succ]; exact hm))]
      by_cases hk : k0 = k
      · subst hk
        have : ¬ (k0 + 1 ≤ k0) := by omega
        simp [this]
      · rw [h k0 d0 hk (Nat.le_refl _) (by simp), List.nil_append]
        by_cases hle : k0 ≤ k
        · have hlt : k0 + 1 ≤ k := by omega
          have e : k - k0 = (k - (k0 + 1)) + 1 := by omega
          simp only [hle, hlt, if_true]
          rw [e, List.getElem?_cons_succ]
        · have : ¬ (k0 + 1 ≤ k) := by omega
          simp [hle, this]
  have := key it.variants 0 (fun j d' hj _ hm => hother j d' hj (by simpa using hm))
  simpa [Item.indexed, hd] using this

/-- A list of per-field expressions, each producing one value and one event. -/
theorem evalList_fieldLoop (cx : SemCtx α) (env : Env α) (fs : List (Val α))
    (mk : Nat → Expr) (val : Nat → α → Val α) (ev : Nat → α → Event α)
    (hstep : ∀ i a log, fs[i]? = some (.leaf a) →
      eval cx env log (mk i) = .ok (val i a, log ++ [ev i a]))
    (hleaf : ∀ v ∈ fs, ∃ a, v = .leaf a)
    (is : List Nat) (his : ∀ i ∈ is, i < fs.length) (log : Log α) :
    evalList cx env log (is.map mk) =
      .ok (is.filterMap (fun i => (leafAt fs i).map (val i)), log ++ leafEvents fs is ev) := by
  induction is generalizing log with
  | nil => simp [evalList, leafEvents]
  | cons i is ih =>
    have hi := his i (by simp)
    obtain ⟨a, ha⟩ := hleaf fs[i] (List.getElem_mem _)
    have hget : fs[i]? = some (.leaf a) := by simp [List.getElem?_eq_getElem hi, ha]
    simp only [List.map_cons, evalList, hstep i a log hget, Out.bind_ok]
    rw [ih (fun j hj => his j (by simp [hj]))]
    simp [leafEvents, leafAt_of fs i a hget, List.append_assoc]

theorem evalFields_fieldLoop (cx : SemCtx α) (env : Env α) (fs : List (Val α))
    (mk : Nat → Expr) (val : Nat → α → Val α) (ev : Nat → α → Event α)
    (hstep : ∀ i a log, fs[i]? = some (.leaf a) →
      eval cx env log (mk i) = .ok (val i a, log ++ [ev i a]))
    (hleaf : ∀ v ∈ fs, ∃ a, v = .leaf a)
    (is : List Nat) (his : ∀ i ∈ is, i < fs.length) (log : Log α) :
    evalFields cx env log (is.map fun i => FieldInit.mk i (mk i)) =
      .ok (is.filterMap (fun i => (leafAt fs i).map (val i)), log ++ leafEvents fs is ev) := by
  induction is generalizing log with
  | nil => simp [evalFields, leafEvents]
  | cons i is ih =>
    have hi := his i (by simp)
    obtain ⟨a, ha⟩ := hleaf fs[i] (List.getElem_mem _)
    have hget : fs[i]? = some (.leaf a) := by simp [List.getElem?_eq_getElem hi, ha]
    simp only [List.map_cons, evalFields, hstep i a log hget, Out.bind_ok]
    rw [ih (fun j hj => his j (by simp [hj]))]
    simp [leafEvents, leafAt_of fs i a hget, List.append_assoc]

end DW
