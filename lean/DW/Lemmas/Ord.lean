import DW.Lemmas.PartialEq
import DW.Lemmas.Discr

/-! # Lemmas for the `PartialOrd` / `Ord` refinement (C04, C07) -/

namespace DW

variable {α : Type}

/-- Result of a comparison as the value the method returns: `Option<Ordering>`
for `PartialOrd`, `Ordering` for `Ord`. -/
def cmpVal (t : Trait) (o : Ordering) : Val α :=
  if t == .partialOrd then .optOrd (some o) else .ord o

/-- Lexicographic result as a value. -/
def lexVal (t : Trait) (ops : FieldOps α) (fa fb : List (Val α)) (is : List Nat) : Val α :=
  if t == .partialOrd then .optOrd (lexPartial ops fa fb is) else .ord (lexTotal ops fa fb is)

theorem lexVal_nil (t : Trait) (ops : FieldOps α) (fa fb : List (Val α)) :
    lexVal t ops fa fb [] = cmpVal t .eq := by
  simp [lexVal, cmpVal, lexPartial, lexTotal]

/-- `build_ord_body` over field positions. -/
def ordBodyIdx (t : Trait) (k : Nat) (is : List Nat) : Expr :=
  is.foldr (fun i body =>
    .match_ (.call (.traitFn (ordFn t)) [.var (.selfField k i), .var (.otherField k i)])
      [.mk (equalPat t) body true, .mk (.bind .move_ .cmp) (.var .cmp) true])
    (equalExpr t)

theorem ordBody_eq (t : Trait) (k : Nat) (d : Data) :
    ordBody t k d = ordBodyIdx t k (d.relevantIdx t) := by
  rw [← Data.iterFields_fst]
  simp [ordBody, ordBodyIdx, List.foldr_map]

theorem eval_equalExpr (cx : SemCtx α) (env : Env α) (log : Log α) (t : Trait) :
    eval cx env log (equalExpr t) = .ok (cmpVal t .eq, log) := by
  unfold equalExpr cmpVal
  split <;> simp [eval, evalList, applyFn]

/-- The nested matches compute the lexicographic comparison. -/
theorem ordBodyIdx_eval (cx : SemCtx α) (t : Trait) (ht : t = .partialOrd ∨ t = .ord)
    (env : Env α) (k : Nat) (fa fb : List (Val α))
    (hfa : ∀ v ∈ fa, ∃ a, v = .leaf a) (hfb : ∀ v ∈ fb, ∃ a, v = .leaf a)
    (henvA : ∀ i (h : i < fa.length), env.lookup (.selfField k i) = some fa[i])
    (henvB : ∀ i (h : i < fb.length), env.lookup (.otherField k i) = some fb[i])
    (is : List Nat) (his : ∀ i ∈ is, i < fa.length ∧ i < fb.length) (log : Log α) :
    eval cx env log (ordBodyIdx t k is) = .ok (lexVal t cx.ops fa fb is, log) := by
  induction is with
  | nil => simp [ordBodyIdx, eval_equalExpr, lexVal_nil]
  | cons i is ih =>
    have hi := his i (by simp)
    obtain ⟨a, ha⟩ := hfa fa[i] (List.getElem_mem _)
    obtain ⟨b, hb⟩ := hfb fb[i] (List.getElem_mem _)
    have h1 : fa[i]? = some (.leaf a) := by simp [List.getElem?_eq_getElem hi.1, ha]
    have h2 : fb[i]? = some (.leaf b) := by simp [List.getElem?_eq_getElem hi.2, hb]
    have ih' := ih (fun j hj => his j (by simp [hj]))
    simp only [ordBodyIdx, List.foldr_cons] at ih' ⊢
    rcases ht with rfl | rfl
    · simp only [ordFn, equalPat, beq_self_eq_true, if_true] at ih'
      simp only [eval, evalList, henvA i hi.1, henvB i hi.2, ha, hb, Out.bind_ok, ordFn,
        beq_self_eq_true, if_true, applyFn, equalPat, evalArms]
      cases hp : cx.ops.pcmp a b with
      | none => simp [matchPat, eval, List.lookup, lexVal, lexPartial, at2, h1, h2, hp]
      | some o =>
        cases o
        · simp [matchPat, eval, List.lookup, lexVal, lexPartial, at2, h1, h2, hp]
        · simp only [matchPat, List.nil_append]
          rw [ih']
          simp [lexVal, lexPartial, at2, h1, h2, hp]
        · simp [matchPat, eval, List.lookup, lexVal, lexPartial, at2, h1, h2, hp]
    · have hne : (Trait.ord == Trait.partialOrd) = false := rfl
      simp only [ordFn, equalPat, hne, Bool.false_eq_true, if_false] at ih'
      simp only [eval, evalList, henvA i hi.1, henvB i hi.2, ha, hb, Out.bind_ok, ordFn,
        hne, Bool.false_eq_true, if_false, applyFn, equalPat, evalArms]
      cases hp : cx.ops.cmp a b
      · simp [matchPat, eval, List.lookup, lexVal, lexTotal, at2, h1, h2, hp, hne]
      · simp only [matchPat, List.nil_append]
        rw [ih']
        simp [lexVal, lexTotal, at2, h1, h2, hp, hne]
      · simp [matchPat, eval, List.lookup, lexVal, lexTotal, at2, h1, h2, hp, hne]

/-- Arms of `PartialOrd::build_body` (without the `Ord` shortcut) and
`Ord::build_body`, uniformly. -/
def ordArmsFor (t : Trait) (dw : DeriveWhere) (k : Nat) (d : Data) : List Arm :=
  if t == .partialOrd then partialOrdBody dw k d else ordArms k d

theorem ordArmsFor_miss (t : Trait) (dw : DeriveWhere) (k k' : Nat) (d : Data)
    (fa fb : List (Val α)) (h : k' ≠ k) :
    ∀ p e c, Arm.mk p e c ∈ ordArmsFor t dw k' d →
      matchPat p (Val.tuple [.adt k fa, .adt k fb]) = none := by
  intro p e c hm
  unfold ordArmsFor partialOrdBody ordArms at hm
  split at hm
  · split at hm
    · simp at hm
    · split at hm <;> simp at hm
      all_goals
        obtain ⟨rfl, _, _⟩ := hm
        exact matchPat_pair_ne k' k fa fb h
  · split at hm
    · simp at hm
    · split at hm <;> simp at hm
      all_goals
        obtain ⟨rfl, _, _⟩ := hm
        exact matchPat_pair_ne k' k fa fb h

/-- The arm of a non-empty comparable variant computes the lexicographic result. -/
theorem ord_arm (cx : SemCtx α) (t : Trait) (ht : t = .partialOrd ∨ t = .ord) (dw : DeriveWhere)
    (hns : (dw.shortcut && dw.contains .ord) = false)
    (env : Env α) (log : Log α) (k : Nat) (d : Data)
    (fa fb : List (Val α)) (tail : List Arm)
    (hla : fa.length = d.fields.length) (hlb : fb.length = d.fields.length)
    (hfa : ∀ v ∈ fa, ∃ a, v = .leaf a) (hfb : ∀ v ∈ fb, ∃ a, v = .leaf a)
    (hne : d.isEmpty t = false) (hinc : d.incomparable = false)
    (hshape : d.shape = .named ∨ d.shape = .tuple) :
    evalArms cx env log (.tuple [.adt k fa, .adt k fb]) (ordArmsFor t dw k d ++ tail) =
      .ok (lexVal t cx.ops fa fb (d.relevantIdx t), log) := by
  have hbody : ordArmsFor t dw k d = [.mk (pairPat k) (ordBody t k d) true] := by
    unfold ordArmsFor partialOrdBody ordArms
    rcases ht with rfl | rfl
    · simp only [beq_self_eq_true, if_true, hne, hinc, hns, Bool.or_self, Bool.false_eq_true, if_false]
      rcases hshape with h | h <;> simp [h]
    · have : (Trait.ord == Trait.partialOrd) = false := rfl
      simp only [this, Bool.false_eq_true, if_false, hne]
      rcases hshape with h | h <;> simp [h]
  rw [hbody]
  simp only [List.cons_append, List.nil_append, evalArms, matchPat_pair_same]
  rw [ordBody_eq]
  exact ordBodyIdx_eval cx t ht (pairEnv k fa fb ++ env) k fa fb hfa hfb
    (fun i h => pairEnv_self k i fa fb env h) (fun i h => pairEnv_other k i fa fb env h)
    (d.relevantIdx t)
    (fun i hi => by have := relevantIdx_lt' d t i hi; omega) log

end DW

namespace DW

variable {α : Type}

/-- Variables a two-operand method body can rely on. -/
structure Env2 (env : Env α) (a b : Val α) : Prop where
  self_ : env.lookup .self_ = some a
  other : env.lookup .other = some b

theorem env2_Env2 (a b : Val α) : Env2 (env2 a b) a b := ⟨rfl, rfl⟩

theorem eval_tupleSO' (cx : SemCtx α) (env : Env α) (a b : Val α) (h : Env2 env a b) (log : Log α) :
    eval cx env log tupleSO = .ok (.tuple [a, b], log) := by
  simp [tupleSO, eval, evalList, vSelf, vOther, h.self_, h.other]

theorem incomparablePattern_none (vs : List Data) (h : ∀ d ∈ vs, d.incomparable = false) :
    incomparablePattern vs = none := by
  unfold incomparablePattern
  have : (vs.zipIdx.filter (·.1.incomparable)) = [] := by
    rw [List.filter_eq_nil_iff]
    intro q hq
    have := h q.1 (List.fst_mem_of_mem_zipIdx hq)
    simp [this]
  simp [this]

/-- `#(if matches!(self, inc) || matches!(__other, inc) { return None; })*`. -/
theorem ordIncStmts_eval (cx : SemCtx α) (env : Env α) (vs : List Data) (k k' : Nat)
    (fa fb : List (Val α)) (h : Env2 env (.adt k fa) (.adt k' fb)) (log : Log α) :
    evalStmts cx env log (ordIncStmts vs) =
      if ((vs[k]?).any (·.incomparable) || (vs[k']?).any (·.incomparable)) = true then
        .ret (.optOrd none) log
      else .ok (env, log) := by
  have h1 := incomparablePattern_spec vs k fa
  have h2 := incomparablePattern_spec vs k' fb
  unfold ordIncStmts
  cases hp : incomparablePattern vs with
  | none =>
    rw [hp] at h1 h2
    simp only at h1 h2
    simp [← h1, ← h2, evalStmts]
  | some p =>
    rw [hp] at h1 h2
    simp only at h1 h2
    simp only [evalStmts, matchesEither, eval, vSelf, vOther, h.self_, h.other, Out.bind_ok, h1, h2]
    cases (vs[k]?).any (·.incomparable) <;> cases (vs[k']?).any (·.incomparable) <;> simp [eval, evalStmts]

/-- `if matches!(self, inc) || matches!(__other, inc)` of the single-comparable branch. -/
theorem matchesEither_eval (cx : SemCtx α) (env : Env α) (vs : List Data) (k k' : Nat)
    (fa fb : List (Val α)) (h : Env2 env (.adt k fa) (.adt k' fb)) (log : Log α) (p : Pat)
    (hp : incomparablePattern vs = some p) :
    eval cx env log (matchesEither p) =
      .ok (.bool ((vs[k]?).any (·.incomparable) || (vs[k']?).any (·.incomparable)), log) := by
  have h1 := incomparablePattern_spec vs k fa
  have h2 := incomparablePattern_spec vs k' fb
  rw [hp] at h1 h2
  simp only at h1 h2
  simp only [matchesEither, eval, vSelf, vOther, h.self_, h.other, Out.bind_ok, h1, h2]
  cases (vs[k]?).any (·.incomparable) <;> cases (vs[k']?).any (·.incomparable) <;> simp

/-- `body_equal` on two values of the same comparable variant. -/
theorem ordBodyEqual_eval (c : Cfg) (it : Item) (cx : SemCtx α) (t : Trait)
    (ht : t = .partialOrd ∨ t = .ord) (dw : DeriveWhere)
    (hns : (dw.shortcut && dw.contains .ord) = false)
    (hwf : it.WF) (hnu : ∀ d ∈ it.variants, d.shape ≠ .union)
    (env : Env α) (log : Log α) (k : Nat) (d : Data) (hd : it.variants[k]? = some d)
    (hinc : d.incomparable = false) (fa fb : List (Val α))
    (henv : Env2 env (.adt k fa) (.adt k fb))
    (hla : fa.length = d.fields.length) (hlb : fb.length = d.fields.length)
    (hfa : ∀ v ∈ fa, ∃ a, v = .leaf a) (hfb : ∀ v ∈ fb, ∃ a, v = .leaf a)
    (be : Expr)
    (hbe : ordBodyEqual c it it.variants t (it.indexed.flatMap fun (k, d) => ordArmsFor t dw k d) = some be) :
    eval cx env log be = .ok (lexVal t cx.ops fa fb (d.relevantIdx t), log) := by
  have hdmem : d ∈ it.variants := List.mem_of_getElem? hd
  unfold ordBodyEqual at hbe
  split at hbe
  · cases hbe
  · have key : ∀ rest : Expr,
        (d.isEmpty t = true → eval cx env log rest = .ok (cmpVal t .eq, log)) →
        eval cx env log (.match_ tupleSO
          ((it.indexed.flatMap fun (k, d) => ordArmsFor t dw k d) ++ [.mk .wild rest true])) =
          .ok (lexVal t cx.ops fa fb (d.relevantIdx t), log) := by
      intro rest hrest
      simp only [eval, eval_tupleSO' cx env _ _ henv, Out.bind_ok]
      rw [evalArms_indexed cx env log _ (fun k d => ordArmsFor t dw k d) k
        (fun k' d' h => ordArmsFor_miss t dw k k' d' fa fb h)]
      simp only [hd]
      by_cases hne : d.isEmpty t = false
      · exact ord_arm cx t ht dw hns env log k d fa fb _ hla hlb hfa hfb hne hinc
          (shape_of_nonempty' d t (hwf d hdmem) (hnu d hdmem) hne)
      · have hemp : d.isEmpty t = true := by simpa using hne
        have hbody : ordArmsFor t dw k d = [] := by
          rcases ht with rfl | rfl <;> simp [ordArmsFor, partialOrdBody, ordArms, hemp]
        have hall : d.relevantIdx t = [] := by
          rw [isEmpty_iff_relevantIdx'] at hemp
          simpa [List.isEmpty_iff] using hemp
        rw [hbody]
        simp only [List.nil_append, evalArms, matchPat, hall, lexVal_nil]
        exact hrest hemp
    split at hbe
    · cases hbe
      exact key _ (fun _ => eval_equalExpr cx env log t)
    · rename_i hany
      cases hbe
      refine key _ (fun hemp => ?_)
      exfalso
      apply hany
      simp only [List.any_eq_true, Bool.and_eq_true, Bool.not_eq_true']
      exact ⟨d, hdmem, hemp, hinc⟩

theorem Env2.cons {env : Env α} {a b : Val α} (h : Env2 env a b) (x : Var) (v : Val α)
    (h1 : x ≠ .self_) (h2 : x ≠ .other) : Env2 ((x, v) :: env) a b := by
  constructor
  · have : (Var.self_ == x) = false := by simp; exact fun e => h1 e.symm
    simp [List.lookup, this, h.self_]
  · have : (Var.other == x) = false := by simp; exact fun e => h2 e.symm
    simp [List.lookup, this, h.other]

/-- Environment after `let __self_disc = ..; let __other_disc = ..;`. -/
def discEnv (env : Env α) (x y : Val α) : Env α :=
  (Var.otherDisc, y) :: (Var.selfDisc, x) :: env

theorem discEnv_Env2 {env : Env α} {a b : Val α} (h : Env2 env a b) (x y : Val α) :
    Env2 (discEnv env x y) a b :=
  (h.cons _ _ (by simp) (by simp)).cons _ _ (by simp) (by simp)

theorem letDiscs_mem_eval (cx : SemCtx α) (env : Env α) (log : Log α) (k k' : Nat)
    (fa fb : List (Val α)) (henv : Env2 env (.adt k fa) (.adt k' fb)) :
    evalStmts cx env log (letDiscs .memDiscriminant) =
      .ok (discEnv env (.disc k) (.disc k'), log) := by
  have h2 := (henv.cons Var.selfDisc (Val.disc k) (by simp) (by simp)).other
  simp only [letDiscs, evalStmts, eval, evalList, vSelf, vOther, henv.self_, Out.bind_ok, applyFn,
    matchPat, List.cons_append, List.nil_append, h2, discEnv]

theorem letDiscs_value_eval (cx : SemCtx α) (env : Env α) (log : Log α) (k k' : Nat)
    (fa fb : List (Val α)) (henv : Env2 env (.adt k fa) (.adt k' fb)) :
    evalStmts cx env log (letDiscs .discriminantValue) =
      .ok (discEnv env (.int (cx.ti.discr k)) (.int (cx.ti.discr k')), log) := by
  have h2 := (henv.cons Var.selfDisc (Val.int (cx.ti.discr k)) (by simp) (by simp)).other
  simp only [letDiscs, evalStmts, eval, evalList, vSelf, vOther, henv.self_, Out.bind_ok, applyFn,
    matchPat, List.cons_append, List.nil_append, h2, discEnv]

theorem discEnv_selfDisc (env : Env α) (x y : Val α) : (discEnv env x y).lookup .selfDisc = some x := by
  have : (Var.selfDisc == Var.otherDisc) = false := rfl
  simp [discEnv, List.lookup, this]

theorem discEnv_otherDisc (env : Env α) (x y : Val α) : (discEnv env x y).lookup .otherDisc = some y := by
  simp [discEnv, List.lookup]

end DW
