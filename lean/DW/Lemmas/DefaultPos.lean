import DW.Lemmas.Validate
import DW.Lemmas.Fields

/-!
# Where the default variant stands (shared by C11 and C02)

Validation guarantees that an item deriving `Default` has exactly one data that counts as default — the struct
itself, or the one variant carrying `#[derive_where(default)]` — at some position `k`, and that every *other position*
holds a non-default variant.  This is the hypothesis of `C11_body` and of the typing of `fn default`.
-/

namespace DW

theorem filter_length_one {β} (p : β → Bool) (l : List β) (h : (l.filter p).length = 1) :
    ∃ (k : Nat) (d : β), l[k]? = some d ∧ p d = true ∧ ∀ j d', j ≠ k → l[j]? = some d' → p d' = false := by
  induction l with
  | nil => simp at h
  | cons a l ih =>
    by_cases hp : p a = true
    · simp only [List.filter_cons, hp, if_true, List.length_cons, Nat.add_eq_right, List.length_eq_zero_iff,
        List.filter_eq_nil_iff] at h
      refine ⟨0, a, by simp, hp, ?_⟩
      intro j d' hj hd'
      cases j with
      | zero => exact absurd rfl hj
      | succ j =>
        simp only [List.getElem?_cons_succ] at hd'
        have := h d' (List.mem_of_getElem? hd')
        simpa using this
    · simp only [List.filter_cons, hp] at h
      obtain ⟨k, d, hk, hpd, hother⟩ := ih (by simpa using h)
      refine ⟨k + 1, d, by simpa using hk, hpd, ?_⟩
      intro j d' hj hd'
      cases j with
      | zero =>
        simp only [List.getElem?_cons_zero, Option.some.injEq] at hd'
        subst hd'; simpa using hp
      | succ j =>
        simp only [List.getElem?_cons_succ] at hd'
        exact hother j d' (by omega) hd'

/-- The position of the default data of a validated item that derives `Default`. -/
theorem default_position (c : Cfg) (raw : RawItem) (inp : Input) (h : Input.fromInput c raw = .ok inp)
    (hnu : raw.kind ≠ .union_) (hshapes : ∀ v ∈ raw.variants, v.shape ≠ .union)
    (hder : DerivesDefault inp.deriveWheres) :
    ∃ (k : Nat) (d : Data), inp.item.variants[k]? = some d ∧ d.isDefault = true ∧ d.shape ≠ .union ∧
      ∀ j d', j ≠ k → inp.item.variants[j]? = some d' → d'.isDefault = false := by
  have hok := Input.fromInput_ok c raw inp h
  have hsh := hok.shapes hnu hshapes
  cases he : inp.item.isEnum
  · -- struct: the only data is the default
    cases hit : inp.item with
    | enum_ disc id inc vs => simp [hit, Item.isEnum] at he
    | item d =>
      have hv : d.isVariant = false := by
        have := hok.isVariant d (by simp [hit, Item.variants]); rw [this, he]
      refine ⟨0, d, by simp [Item.variants], by simp [Data.isDefault, hv],
        hsh d (by simp [hit, Item.variants]), ?_⟩
      intro j d' hj hd'
      cases j with
      | zero => exact absurd rfl hj
      | succ j => simp [Item.variants] at hd'
  · have hone := hok.defaultExists he hder
    obtain ⟨k, d, hk, hpd, hother⟩ := filter_length_one (fun d : Data => d.default) inp.item.variants hone
    have hvar : ∀ d' ∈ inp.item.variants, d'.isVariant = true := fun d' hd' => by
      rw [hok.isVariant d' hd', he]
    refine ⟨k, d, hk, by simp [Data.isDefault, hvar d (List.mem_of_getElem? hk), hpd],
      hsh d (List.mem_of_getElem? hk), ?_⟩
    intro j d' hj hd'
    simp [Data.isDefault, hvar d' (List.mem_of_getElem? hd'), hother j d' hj hd']

end DW
