import DW.Lemmas.Ord

/-! # The discriminant access strategies of `build_ord_signature` (C04, C12) -/

namespace DW

variable {α : Type}

/-- What ties the evaluator's ground truth about the type (`TypeInfo`, the
table of explicit discriminant values) to the item the macro saw.  These are
facts about rustc and the item, part of `ItemValid` in DESIGN.md. -/
structure TiOK (cx : SemCtx α) (c : Cfg) (vs : List Data) (disc : Discriminant) : Prop where
  userDiscr : cx.userDiscr = userDiscrOf vs
  /-- discriminant values follow the reference's rule (the macro sees the
  explicit expressions only when not `nightly`) -/
  discr : c.nightly = false → ∀ k (h : k < vs.length),
    cx.ti.discr k = (rustDiscrs vs)[k]'(by rw [rustDiscrs_length]; exact h)
  /-- `Unit`/`UnitRepr` are only chosen for enums all of whose variants are field-less -/
  fieldless : (disc = .unit ∨ ∃ r, disc = .unitRepr r) → cx.ti.fieldless = true
  /-- `UnitRepr(r)`/`DataRepr(r)` are only chosen when the enum carries `#[repr(r)]` -/
  repr : ∀ r, (disc = .unitRepr r ∨ disc = .dataRepr r) → cx.ti.reprInt = some r
  /-- rustc rejects duplicate discriminant values (E0081) -/
  inj : ∀ k k', k < vs.length → k' < vs.length → cx.ti.discr k = cx.ti.discr k' → k = k'

theorem evalArms_discArms_go (cx : SemCtx α) (env : Env α) (log : Log α) (k : Nat) (fa : List (Val α))
    (f : Nat → Expr → Expr) (cm : Nat → Bool) (ds : List Expr) (n0 : Nat) (h0 : n0 ≤ k)
    (hk : k - n0 < ds.length) :
    evalArms cx env log (.adt k fa)
      ((ds.zipIdx n0).map fun (d, j) => Arm.mk (.ctor j .self_ false) (f j d) (cm j)) =
      eval cx (ctorBinds .self_ false k fa ++ env) log (f k (ds[k - n0]'hk)) := by
  induction ds generalizing n0 with
  | nil => simp at hk
  | cons d ds ih =>
    simp only [List.zipIdx_cons, List.map_cons, evalArms, matchPat]
    by_cases h : n0 = k
    · subst h; simp
    · have hlt : n0 + 1 ≤ k := by omega
      have hk' : k - (n0 + 1) < ds.length := by simp at hk; omega
      simp only [h, if_false]
      rw [ih (n0 + 1) hlt hk']
      have e : k - n0 = (k - (n0 + 1)) + 1 := by omega
      simp [e]

/-- Calling the nested `__discriminant` function on a value of variant `k`. -/
theorem discFnCall_eval (cx : SemCtx α) (env : Env α) (log : Log α) (vs : List Data) (validate : Bool)
    (hud : cx.userDiscr = userDiscrOf vs) (x : Var) (k : Nat) (fa : List (Val α))
    (hx : env.lookup x = some (.adt k fa)) (hk : k < vs.length) :
    eval cx env log
      (discCall (.match_ (.var .this) (discArms validate (buildDiscriminants vs))) x) =
      .ok (.int ((rustDiscrs vs)[k]'(by rw [rustDiscrs_length]; exact hk)), log) := by
  have hlen := buildDiscriminants_length vs
  simp only [discCall, eval, hx, Out.bind_ok, List.lookup, beq_self_eq_true]
  unfold discArms
  have := evalArms_discArms_go cx [(Var.this, Val.adt k fa)] log k fa
    (fun j d => if validate then Expr.validateConst j d else d)
    (fun j => j + 1 != (buildDiscriminants vs).length) (buildDiscriminants vs) 0 (Nat.zero_le _)
    (by simp [hlen]; exact hk)
  simp only [Nat.sub_zero] at this
  rw [this]
  have hv := buildDiscriminants_getElem vs k hk
  rw [← hud] at hv
  cases validate
  · simp only [Bool.false_eq_true, if_false]
    exact eval_of_discVal cx _ log _ _ hv
  · simp only [if_true, eval]
    exact eval_of_discVal cx _ log _ _ hv

/-- No-op statements. -/
theorem evalStmts_validateDefs (cx : SemCtx α) (env : Env α) (log : Log α) (l : List (Expr × Nat))
    (rest : List Stmt) :
    evalStmts cx env log ((l.map fun (d, k) => Stmt.validateDef k d) ++ rest) = evalStmts cx env log rest := by
  induction l with
  | nil => rfl
  | cons a l ih => simp only [List.map_cons, List.cons_append, evalStmts]; exact ih

theorem cmpVal_int (cx : SemCtx α) (t : Trait) (ht : t = .partialOrd ∨ t = .ord) (a b : Int) (log : Log α) :
    applyFn cx (.traitFn (ordFn t)) [.int a, .int b] log = .ok (cmpVal t (compare a b), log) := by
  rcases ht with rfl | rfl <;> simp [ordFn, applyFn, cmpVal, cmpInt]

theorem applyFn_discriminantValue (cx : SemCtx α) (k : Nat) (fs : List (Val α)) (log : Log α) :
    applyFn cx .discriminantValue [.adt k fs] log = .ok (.int (cx.ti.discr k), log) := rfl

/-- Extra events a discriminant strategy may log: calls of the sibling `Clone`. -/
def OnlySelfClone (l : Log α) : Prop := ∀ e ∈ l, e = Event.selfCall .clone

/-- `build_discriminant_comparison`. -/
theorem discriminantComparison_eval (cx : SemCtx α) (t : Trait) (ht : t = .partialOrd ∨ t = .ord)
    (env : Env α) (log : Log α) (vs : List Data) (repr : Option IntTy) (validate : Option (List Stmt))
    (hud : cx.userDiscr = userDiscrOf vs)
    (k k' : Nat) (fa fb : List (Val α)) (henv : Env2 env (.adt k fa) (.adt k' fb))
    (hk : k < vs.length) (hk' : k' < vs.length) :
    eval cx env log (discriminantComparison repr validate (buildDiscriminants vs) (ordFn t)).toExpr =
      .ok (cmpVal t (compare ((rustDiscrs vs)[k]'(by rw [rustDiscrs_length]; exact hk))
        ((rustDiscrs vs)[k']'(by rw [rustDiscrs_length]; exact hk'))), log) := by
  rw [eval_toExpr]
  simp only [discriminantComparison, evalStmts, Out.bind_ok, eval, evalList, vSelf, vOther]
  rw [discFnCall_eval cx env log vs _ hud .self_ k fa henv.self_ hk]
  simp only [Out.bind_ok]
  rw [discFnCall_eval cx env log vs _ hud .other k' fb henv.other hk']
  simp only [Out.bind_ok]
  exact cmpVal_int cx t ht _ _ log

end DW

namespace DW

variable {α : Type}

/-- `*self as R` -/
theorem castCmp_deref_eval (cx : SemCtx α) (t : Trait) (ht : t = .partialOrd ∨ t = .ord)
    (env : Env α) (log : Log α) (r : IntTy) (k k' : Nat) (fa fb : List (Val α))
    (henv : Env2 env (.adt k fa) (.adt k' fb)) (hfl : cx.ti.fieldless = true) :
    eval cx env log (castCmp (ordFn t) fun e => .cast (.deref e) r) =
      .ok (cmpVal t (compare (cx.ti.discr k) (cx.ti.discr k')), log) := by
  simp only [castCmp, eval, evalList, vSelf, vOther, henv.self_, henv.other, Out.bind_ok, hfl, if_true]
  exact cmpVal_int cx t ht _ _ log

/-- `Clone::clone(self) as R` -/
theorem castCmp_clone_eval (cx : SemCtx α) (t : Trait) (ht : t = .partialOrd ∨ t = .ord)
    (env : Env α) (log : Log α) (r : IntTy) (k k' : Nat) (fa fb : List (Val α))
    (henv : Env2 env (.adt k fa) (.adt k' fb)) (hfl : cx.ti.fieldless = true)
    (hca : cx.impls .clone [.adt k fa] = some (.adt k fa))
    (hcb : cx.impls .clone [.adt k' fb] = some (.adt k' fb)) :
    eval cx env log (castCmp (ordFn t) fun e => .cast (.selfCall .clone [e]) r) =
      .ok (cmpVal t (compare (cx.ti.discr k) (cx.ti.discr k')),
        log ++ [.selfCall .clone] ++ [.selfCall .clone]) := by
  simp only [castCmp, eval, evalList, vSelf, vOther, henv.self_, henv.other, Out.bind_ok, hfl, if_true,
    hca, hcb]
  exact cmpVal_int cx t ht _ _ _

/-- `unsafe { *<*const _>::from(self).cast::<R>() }` -/
theorem ptrCmp_eval (cx : SemCtx α) (t : Trait) (ht : t = .partialOrd ∨ t = .ord)
    (env : Env α) (log : Log α) (r : IntTy) (k k' : Nat) (fa fb : List (Val α))
    (henv : Env2 env (.adt k fa) (.adt k' fb)) (hr : cx.ti.reprInt = some r) :
    eval cx env log (ptrCmp (ordFn t) r) =
      .ok (cmpVal t (compare (cx.ti.discr k) (cx.ti.discr k')), log) := by
  simp only [ptrCmp, eval, evalList, vSelf, vOther, henv.self_, henv.other, Out.bind_ok, hr, if_true]
  exact cmpVal_int cx t ht _ _ log

/-- The sibling `Clone` impl returns its argument (C09) whenever the strategy uses it. -/
def CloneOK (cx : SemCtx α) (dw : DeriveWhere) (v : Val α) : Prop :=
  dw.contains .clone = true → cx.impls .clone [v] = some v

/-- `body_else`: every strategy yields the comparison of the discriminant values. -/
theorem ordBodyElse_eval (c : Cfg) (cx : SemCtx α) (t : Trait) (ht : t = .partialOrd ∨ t = .ord)
    (dw : DeriveWhere) (disc : Discriminant) (vs : List Data) (hok : TiOK cx c vs disc)
    (hnn : c.nightly = false) (hns : disc ≠ .single)
    (env : Env α) (log : Log α) (k k' : Nat) (fa fb : List (Val α))
    (henv : Env2 env (.adt k fa) (.adt k' fb)) (hk : k < vs.length) (hk' : k' < vs.length)
    (hca : CloneOK cx dw (.adt k fa)) (hcb : CloneOK cx dw (.adt k' fb)) :
    ∃ extra, OnlySelfClone extra ∧
      eval cx env log (ordBodyElse c dw disc vs (ordFn t)).toExpr =
        .ok (cmpVal t (compare (cx.ti.discr k) (cx.ti.discr k')), log ++ extra) := by
  have hdk := hok.discr hnn k hk
  have hdk' := hok.discr hnn k' hk'
  have hdc := discriminantComparison_eval cx t ht env log vs
  cases disc with
  | single => exact absurd rfl hns
  | unit =>
    have hfl := hok.fieldless (Or.inl rfl)
    simp only [ordBodyElse]
    by_cases hcopy : dw.contains .copy = true
    · refine ⟨[], by simp [OnlySelfClone], ?_⟩
      simp only [hcopy, if_true, eval_toExpr]
      have : evalStmts cx env log
          ((if vs.any (·.discriminant.isSome) = true then
              some ((buildDiscriminants vs).zipIdx.map fun (d, k) => Stmt.validateDef k d)
            else none).getD []) = .ok (env, log) := by
        split
        · have := evalStmts_validateDefs cx env log (buildDiscriminants vs).zipIdx []
          simpa [evalStmts] using this
        · simp [evalStmts]
      rw [this]
      simp only [Out.bind_ok, List.append_nil]
      exact castCmp_deref_eval cx t ht env log _ k k' fa fb henv hfl
    · simp only [hcopy, Bool.false_eq_true, if_false]
      by_cases hclone : dw.contains .clone = true
      · refine ⟨[.selfCall .clone] ++ [.selfCall .clone], by simp [OnlySelfClone], ?_⟩
        simp only [hclone, if_true, eval_toExpr]
        have : evalStmts cx env log
            ((if vs.any (·.discriminant.isSome) = true then
                some ((buildDiscriminants vs).zipIdx.map fun (d, k) => Stmt.validateDef k d)
              else none).getD []) = .ok (env, log) := by
          split
          · have := evalStmts_validateDefs cx env log (buildDiscriminants vs).zipIdx []
            simpa [evalStmts] using this
          · simp [evalStmts]
        rw [this]
        simp only [Out.bind_ok]
        rw [castCmp_clone_eval cx t ht env log _ k k' fa fb henv hfl (hca hclone) (hcb hclone)]
        simp [List.append_assoc]
      · refine ⟨[], by simp [OnlySelfClone], ?_⟩
        simp only [hclone, Bool.false_eq_true, if_false, List.append_nil]
        rw [hdc none _ hok.userDiscr k k' fa fb henv hk hk', hdk, hdk']
  | data =>
    refine ⟨[], by simp [OnlySelfClone], ?_⟩
    simp only [ordBodyElse, List.append_nil]
    rw [hdc none none hok.userDiscr k k' fa fb henv hk hk', hdk, hdk']
  | unitRepr r =>
    have hfl := hok.fieldless (Or.inr ⟨r, rfl⟩)
    have hr := hok.repr r (Or.inl rfl)
    simp only [ordBodyElse]
    by_cases hcopy : dw.contains .copy = true
    · refine ⟨[], by simp [OnlySelfClone], ?_⟩
      simp only [hcopy, if_true, Blk.toExpr, List.append_nil]
      exact castCmp_deref_eval cx t ht env log _ k k' fa fb henv hfl
    · simp only [hcopy, Bool.false_eq_true, if_false]
      by_cases hclone : dw.contains .clone = true
      · refine ⟨[.selfCall .clone] ++ [.selfCall .clone], by simp [OnlySelfClone], ?_⟩
        simp only [hclone, if_true, Blk.toExpr]
        rw [castCmp_clone_eval cx t ht env log _ k k' fa fb henv hfl (hca hclone) (hcb hclone)]
        simp [List.append_assoc]
      · refine ⟨[], by simp [OnlySelfClone], ?_⟩
        simp only [hclone, Bool.false_eq_true, if_false, List.append_nil]
        cases hs : c.safe
        · simp only [Bool.false_eq_true, if_false, Blk.toExpr]
          exact ptrCmp_eval cx t ht env log r k k' fa fb henv hr
        · simp only [if_true]
          rw [hdc (some r) none hok.userDiscr k k' fa fb henv hk hk', hdk, hdk']
  | dataRepr r =>
    have hr := hok.repr r (Or.inr rfl)
    refine ⟨[], by simp [OnlySelfClone], ?_⟩
    simp only [ordBodyElse, List.append_nil]
    cases hs : c.safe
    · simp only [Bool.false_eq_true, if_false, Blk.toExpr]
      exact ptrCmp_eval cx t ht env log r k k' fa fb henv hr
    · simp only [if_true]
      rw [hdc (some r) none hok.userDiscr k k' fa fb henv hk hk', hdk, hdk']

end DW
