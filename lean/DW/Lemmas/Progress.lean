import DW.Lemmas.Preserve

/-!
# Well-typed expressions do not get stuck (progress)

The evaluator's `stuck` outcome stands for "rustc would have rejected this program": an unbound name, a library call
on arguments of the wrong shape, a `match` without a matching arm, a cast of a value that is no field-less enum.
This file shows that the static checks of `DW/Typing.lean` (typing + exhaustiveness) exclude it: a well-typed
expression evaluated in an environment that agrees with its typing context ends in a value, an early `return`, a
panic or undefined behaviour — never in `stuck`.  Together with `eval_preserves` this is type soundness for the
fragment.  The semantic context has to be total where the static checks rely on it (`CxTotal`): explicit
discriminants are known for the variants that have one, sibling impls are defined on well-formed values.
-/

namespace DW

variable {α : Type}

/-- The semantic context is defined where the static checks promise it. -/
structure CxTotal (it : Item) (cx : SemCtx α) : Prop where
  userDiscr : ∀ k d, it.variants[k]? = some d → d.discriminant.isSome = true → (cx.userDiscr k).isSome = true
  fieldless : it.fieldless = true → cx.ti.fieldless = true
  clone : ∀ a, WfVal it a → (cx.impls .clone [a]).isSome = true
  cmp : ∀ a b, WfVal it a → WfVal it b → (cx.impls .cmp [a, b]).isSome = true
  zeroize : ∀ a, WfVal it a → (cx.impls .zeroize [a]).isSome = true

theorem bind_ne_stuck {β γ} (o : Out α β) (f : β → Out α γ) (h1 : o ≠ .stuck) (h2 : ∀ b, o = .ok b → f b ≠ .stuck) :
    o.bind f ≠ .stuck := by
  cases o with
  | ok b => exact h2 b rfl
  | ret v l => simp [Out.bind]
  | ub => simp [Out.bind]
  | panic => simp [Out.bind]
  | stuck => exact absurd rfl h1

/-! ## Argument lists of known length -/

theorem valsOK0 {it : Item} {vs : List (Val α)} (h : ValsOK it vs []) : vs = [] := by
  cases vs <;> simp_all [ValsOK]

theorem valsOK1 {it : Item} {vs : List (Val α)} {t : Ty} (h : ValsOK it vs [t]) : ∃ v, vs = [v] ∧ ValOK it v t := by
  match vs, h with
  | [v], h => exact ⟨v, rfl, h.1⟩
  | [], h => simp [ValsOK] at h
  | _ :: _ :: _, h => simp [ValsOK] at h

theorem valsOK2 {it : Item} {vs : List (Val α)} {t1 t2 : Ty} (h : ValsOK it vs [t1, t2]) :
    ∃ v1 v2, vs = [v1, v2] ∧ ValOK it v1 t1 ∧ ValOK it v2 t2 := by
  match vs, h with
  | [v1, v2], h => exact ⟨v1, v2, rfl, h.1, h.2.1⟩
  | [], h => simp [ValsOK] at h
  | [_], h => simp [ValsOK] at h
  | _ :: _ :: _ :: _, h => simp [ValsOK] at h

theorem valsOK3 {it : Item} {vs : List (Val α)} {t1 t2 t3 : Ty} (h : ValsOK it vs [t1, t2, t3]) :
    ∃ v1 v2 v3, vs = [v1, v2, v3] ∧ ValOK it v1 t1 ∧ ValOK it v2 t2 ∧ ValOK it v3 t3 := by
  match vs, h with
  | [v1, v2, v3], h => exact ⟨v1, v2, v3, rfl, h.1, h.2.1, h.2.2.1⟩
  | [], h => simp [ValsOK] at h
  | [_], h => simp [ValsOK] at h
  | [_, _], h => simp [ValsOK] at h
  | _ :: _ :: _ :: _ :: _, h => simp [ValsOK] at h

theorem wfVal_adt {it : Item} {v : Val α} (h : WfVal it v) : ∃ k fs, v = .adt k fs := by
  cases v <;> simp_all [WfVal]

/-- A well-typed library call is defined. -/
theorem applyFn_progress (it : Item) (cx : SemCtx α) (f : Fn) (vs : List (Val α)) (ts : List Ty) (τ : Ty)
    (log : Log α) (hty : applyFnTy it f ts = some τ) (hvs : ValsOK it vs ts) : applyFn cx f vs log ≠ .stuck := by
  by_cases hc : ∃ k, f = .ctor k
  · obtain ⟨k, rfl⟩ := hc
    unfold applyFn
    split <;> simp_all
  · unfold applyFnTy at hty
    split at hty
    all_goals (try (exfalso; exact hc ⟨_, rfl⟩))
    all_goals (try (simp only [Option.some.injEq, reduceCtorEq] at hty))
    all_goals first
      | (obtain ⟨v1, v2, v3, rfl, h1, h2, h3⟩ := valsOK3 hvs
         simp only [ValOK] at h1 h2 h3
         subst h1; obtain ⟨s, rfl⟩ := h2; obtain ⟨a, rfl⟩ := h3
         simp [applyFn])
      | (obtain ⟨v1, v2, rfl, h1, h2⟩ := valsOK2 hvs
         simp only [ValOK] at h1 h2
         first
           | (obtain ⟨a, rfl⟩ := h1; obtain ⟨b, rfl⟩ := h2; simp [applyFn])
           | (obtain ⟨a, rfl⟩ := h1; subst h2; simp [applyFn])
           | (subst h1; obtain ⟨b, rfl⟩ := h2; simp [applyFn]))
      | (obtain ⟨v1, rfl, h1⟩ := valsOK1 hvs
         simp only [ValOK] at h1
         first
           | (obtain ⟨k, fs, rfl⟩ := wfVal_adt h1; simp [applyFn])
           | (obtain ⟨j, a, rfl⟩ := h1; simp [applyFn])
           | (obtain ⟨a, rfl⟩ := h1; simp [applyFn])
           | (subst h1; simp [applyFn]))
      | (have := valsOK0 hvs; subst this; simp [applyFn])
      | (cases hty)

/-! ## Patterns -/

mutual
/-- An irrefutable pattern matches every value of its type. -/
theorem total_matches (it : Item) : ∀ (p : Pat) (v : Val α) (t : Ty),
    p.total it t = true → ValOK it v t → (matchPat p v).isSome = true
  | .wild, v, t, _, _ => by simp [matchPat]
  | .rest, v, t, _, _ => by simp [matchPat]
  | .bind m x, v, t, _, _ => by simp [matchPat]
  | .ctor k s m, v, t, ht, hv => by
    simp only [Pat.total, Bool.and_eq_true, beq_iff_eq] at ht
    obtain ⟨⟨hsr, hlen⟩, rfl⟩ := ht
    have hw := selfRef_val hsr hv
    obtain ⟨k', fs, rfl⟩ := wfVal_adt hw
    obtain ⟨d, hd, _⟩ := hw
    have : k' < it.variants.length := by
      rcases Nat.lt_or_ge k' it.variants.length with h | h
      · exact h
      · rw [List.getElem?_eq_none h] at hd; cases hd
    have : k' = 0 := by omega
    subst this
    simp [matchPat]
  | .ctorAny k, v, t, ht, hv => by
    simp only [Pat.total, Bool.and_eq_true, beq_iff_eq] at ht
    obtain ⟨⟨hsr, hlen⟩, rfl⟩ := ht
    have hw := selfRef_val hsr hv
    obtain ⟨k', fs, rfl⟩ := wfVal_adt hw
    obtain ⟨d, hd, _⟩ := hw
    have : k' < it.variants.length := by
      rcases Nat.lt_or_ge k' it.variants.length with h | h
      · exact h
      · rw [List.getElem?_eq_none h] at hd; cases hd
    have : k' = 0 := by omega
    subst this
    simp [matchPat]
  | .equal, v, t, ht, _ => by simp [Pat.total] at ht
  | .someEqual, v, t, ht, _ => by simp [Pat.total] at ht
  | .tuple ps, v, t, ht, hv => by
    cases t <;> simp only [Pat.total, reduceCtorEq, Bool.false_eq_true] at ht
    rename_i a b
    simp only [ValOK] at hv
    obtain ⟨x, y, rfl, hx, hy⟩ := hv
    simp only [matchPat]
    exact totals_matches it ps [x, y] [a, b] ht ⟨hx, hy, trivial⟩
  | .or ps, v, t, ht, hv => by
    simp only [Pat.total] at ht
    simp only [matchPat]
    exact anyTotal_matches it ps v t ht hv
theorem totals_matches (it : Item) : ∀ (ps : List Pat) (vs : List (Val α)) (ts : List Ty),
    Pat.totals it ps ts = true → ValsOK it vs ts → (matchPats ps vs).isSome = true
  | [], vs, ts, ht, hv => by
    cases ts <;> simp only [Pat.totals, reduceCtorEq, Bool.false_eq_true] at ht
    have := valsOK0 hv; subst this; simp [matchPats]
  | p :: ps, vs, ts, ht, hv => by
    cases ts with
    | nil => simp [Pat.totals] at ht
    | cons t ts =>
      cases vs with
      | nil => simp [ValsOK] at hv
      | cons v vs =>
        simp only [Pat.totals, Bool.and_eq_true] at ht
        simp only [ValsOK] at hv
        by_cases hr : p = .rest ∧ ps = []
        · obtain ⟨rfl, rfl⟩ := hr; simp [matchPats]
        · rw [matchPats_cons p ps v vs hr]
          have h1 := total_matches it p v t ht.1 hv.1
          have h2 := totals_matches it ps vs ts ht.2 hv.2
          cases hp : matchPat p v with
          | none => simp [hp] at h1
          | some e1 =>
            cases hps : matchPats ps vs with
            | none => simp [hps] at h2
            | some e2 => simp
theorem anyTotal_matches (it : Item) : ∀ (ps : List Pat) (v : Val α) (t : Ty),
    Pat.anyTotal it ps t = true → ValOK it v t → (matchAny ps v).isSome = true
  | [], v, t, ht, _ => by simp [Pat.anyTotal] at ht
  | p :: ps, v, t, ht, hv => by
    simp only [Pat.anyTotal, Bool.or_eq_true] at ht
    simp only [matchAny]
    cases hp : matchPat p v with
    | some e => simp
    | none =>
      simp only
      rcases ht with h | h
      · have := total_matches it p v t h hv; simp [hp] at this
      · exact anyTotal_matches it ps v t h hv
end

mutual
/-- A pattern that covers variant `k` matches every value of that variant. -/
theorem covers_matches : ∀ (p : Pat) (k : Nat) (fs : List (Val α)),
    p.coversVariant k = true → (matchPat p (.adt k fs)).isSome = true
  | .wild, k, fs, _ => by simp [matchPat]
  | .rest, k, fs, _ => by simp [matchPat]
  | .bind m x, k, fs, _ => by simp [matchPat]
  | .ctor k' s m, k, fs, h => by
    simp only [Pat.coversVariant, beq_iff_eq] at h; subst h; simp [matchPat]
  | .ctorAny k', k, fs, h => by
    simp only [Pat.coversVariant, beq_iff_eq] at h; subst h; simp [matchPat]
  | .equal, k, fs, h => by simp [Pat.coversVariant] at h
  | .someEqual, k, fs, h => by simp [Pat.coversVariant] at h
  | .tuple ps, k, fs, h => by simp [Pat.coversVariant] at h
  | .or ps, k, fs, h => by
    simp only [Pat.coversVariant] at h
    simp only [matchPat]
    exact anyCovers_matches ps k fs h
theorem anyCovers_matches : ∀ (ps : List Pat) (k : Nat) (fs : List (Val α)),
    Pat.anyCovers k ps = true → (matchAny ps (.adt k fs)).isSome = true
  | [], k, fs, h => by simp [Pat.anyCovers] at h
  | p :: ps, k, fs, h => by
    simp only [Pat.anyCovers, Bool.or_eq_true] at h
    simp only [matchAny]
    cases hp : matchPat p (Val.adt k fs) with
    | some e => simp
    | none =>
      simp only
      rcases h with h | h
      · have := covers_matches p k fs h; simp [hp] at this
      · exact anyCovers_matches ps k fs h
end

/-- An exhaustive `match` has an arm for every value of the scrutinee's type. -/
theorem exhaustive_witness (it : Item) (t : Ty) (arms : List Arm) (v : Val α)
    (hex : Arms.exhaustive it t arms = true) (hv : ValOK it v t) :
    ∃ a ∈ arms, (matchPat a.pat v).isSome = true := by
  simp only [Arms.exhaustive, Bool.or_eq_true, List.any_eq_true, Bool.and_eq_true, List.all_eq_true,
    List.mem_range] at hex
  rcases hex with ⟨a, ha, htot⟩ | ⟨hsr, hall⟩
  · exact ⟨a, ha, total_matches it a.pat v t htot hv⟩
  · have hw := selfRef_val hsr hv
    obtain ⟨k, fs, rfl⟩ := wfVal_adt hw
    obtain ⟨d, hd, _⟩ := hw
    have hk : k < it.variants.length := by
      rcases Nat.lt_or_ge k it.variants.length with h | h
      · exact h
      · rw [List.getElem?_eq_none h] at hd; cases hd
    obtain ⟨a, ha, hc⟩ := hall k hk
    exact ⟨a, ha, covers_matches a.pat k fs hc⟩

theorem binop_progress (it : Item) (op : BinOp) (ta tb τ : Ty) (va vb : Val α)
    (hty : binopTy op ta tb = some τ) (ha : ValOK it va ta) (hb : ValOK it vb tb) (hop : op = .eq ∨ op = .add) :
    (applyBinop op va vb).isSome = true := by
  unfold binopTy at hty
  split at hty <;> simp only [Option.some.injEq, reduceCtorEq] at hty <;>
    simp only [ValOK] at ha hb <;> obtain ⟨x, rfl⟩ := ha <;> obtain ⟨y, rfl⟩ := hb <;>
    first | (simp [applyBinop]; done) | (exfalso; rcases hop with h | h <;> cases h)

/-! ## Expressions -/

section Main
variable (cx : SemCtx α) (tcx : TyCx) (himpl : ImplsOK tcx.it cx) (hwf : tcx.it.WF) (htot : CxTotal tcx.it cx)
include himpl hwf htot

/-- The value an expression produced has the expression's type (a convenient form of `eval_preserves`). -/
theorem ok_typed (e : Expr) (Γ : TEnv) (env : Env α) (log : Log α) (τ : Ty) (ht : e.ty tcx Γ = some τ)
    (he : EnvOK tcx.it env Γ) (v : Val α) (l : Log α) (hr : eval cx env log e = .ok (v, l)) : ValOK tcx.it v τ := by
  have := eval_preserves cx tcx himpl hwf e Γ env log τ ht he
  rw [hr] at this; exact this

theorem selfCall_progress (f : TraitFn) (vs : List (Val α)) (ts : List Ty) (τ : Ty)
    (hty : selfCallTy f ts = some τ) (hvs : ValsOK tcx.it vs ts) : (cx.impls f vs).isSome = true := by
  unfold selfCallTy at hty
  split at hty <;> simp only [Option.some.injEq, reduceCtorEq] at hty
  · obtain ⟨a, rfl, ha⟩ := valsOK1 hvs
    exact htot.clone a (by simpa [ValOK] using ha)
  · obtain ⟨a, b, rfl, ha, hb⟩ := valsOK2 hvs
    exact htot.cmp a b (by simpa [ValOK] using ha) (by simpa [ValOK] using hb)
  · obtain ⟨a, rfl, ha⟩ := valsOK1 hvs
    exact htot.zeroize a (by simpa [ValOK] using ha)

mutual
/-- **Progress.** -/
theorem eval_progress : ∀ (e : Expr) (Γ : TEnv) (env : Env α) (log : Log α) (τ : Ty),
    e.ty tcx Γ = some τ → EnvOK tcx.it env Γ → eval cx env log e ≠ .stuck
  | .litBool b, Γ, env, log, τ, _, _ => by simp [eval]
  | .litInt n, Γ, env, log, τ, _, _ => by simp [eval]
  | .litStr s', Γ, env, log, τ, _, _ => by simp [eval]
  | .var x, Γ, env, log, τ, ht, he => by
    simp only [Expr.ty] at ht
    obtain ⟨v, hv, _⟩ := he x τ ht
    simp [eval, hv]
  | .equal, Γ, env, log, τ, _, _ => by simp [eval]
  | .none_, Γ, env, log, τ, _, _ => by simp [eval]
  | .unitCtor k, Γ, env, log, τ, _, _ => by simp [eval]
  | .userDiscr k, Γ, env, log, τ, ht, _ => by
    simp only [Expr.ty] at ht
    split at ht
    · rename_i d hd
      split at ht
      · rename_i hdisc
        have := htot.userDiscr k d hd hdisc
        simp only [eval]
        cases h : cx.userDiscr k with
        | none => simp [h] at this
        | some n => simp
      · cases ht
    · cases ht
  | .defaultCall k i, Γ, env, log, τ, _, _ => by simp [eval]
  | .call f args, Γ, env, log, τ, ht, he => by
    simp only [Expr.ty] at ht
    cases hts : Expr.tys tcx Γ args with
    | none => simp [hts] at ht
    | some ts =>
      simp only [hts, Option.bind] at ht
      simp only [eval]
      refine bind_ne_stuck _ _ (evalList_progress args Γ env log ts hts he) ?_
      intro b hb
      obtain ⟨vs, l⟩ := b
      have := evalList_preserves cx tcx himpl hwf args Γ env log ts hts he
      rw [hb] at this
      exact applyFn_progress tcx.it cx f vs ts τ l ht this
  | .callT f args, Γ, env, log, τ, ht, he => by
    simp only [Expr.ty] at ht
    cases hts : Expr.tys tcx Γ args with
    | none => simp [hts] at ht
    | some ts =>
      simp only [hts, Option.bind] at ht
      simp only [eval]
      refine bind_ne_stuck _ _ (evalList_progress args Γ env log ts hts he) ?_
      intro b hb
      obtain ⟨vs, l⟩ := b
      have := evalList_preserves cx tcx himpl hwf args Γ env log ts hts he
      rw [hb] at this
      exact applyFn_progress tcx.it cx f vs ts τ l ht this
  | .selfCall f args, Γ, env, log, τ, ht, he => by
    simp only [Expr.ty] at ht
    cases hts : Expr.tys tcx Γ args with
    | none => simp [hts] at ht
    | some ts =>
      simp only [hts, Option.bind] at ht
      simp only [eval]
      refine bind_ne_stuck _ _ (evalList_progress args Γ env log ts hts he) ?_
      intro b hb
      obtain ⟨vs, l⟩ := b
      have hvs := evalList_preserves cx tcx himpl hwf args Γ env log ts hts he
      rw [hb] at hvs
      have := selfCall_progress cx tcx himpl hwf htot f vs ts τ ht hvs
      simp only
      cases h : cx.impls f vs with
      | none => simp [h] at this
      | some v => simp
  | .discFnCall body arg, Γ, env, log, τ, ht, he => by
    simp only [Expr.ty] at ht
    split at ht
    · rename_i t harg hbody
      simp only [eval]
      refine bind_ne_stuck _ _ (eval_progress arg Γ env log _ harg he) ?_
      intro b hb
      obtain ⟨v, l⟩ := b
      have hv := ok_typed cx tcx himpl hwf htot arg Γ env log _ harg he v l hb
      exact eval_progress body [(.this, .ref .self_)] [(.this, v)] l t hbody (envOK_this tcx.it v hv)
    · cases ht
  | .validateConst _ body, Γ, env, log, τ, ht, _ => by
    simp only [Expr.ty] at ht
    split at ht
    · rename_i hbody
      simp only [eval]
      exact eval_progress body [] [] log .int hbody (envOK_nil tcx.it [])
    · cases ht
  | .methodCall recv m, Γ, env, log, τ, ht, he => by
    simp only [Expr.ty] at ht
    split at ht
    · rename_i k i hrecv
      simp only [eval]
      refine bind_ne_stuck _ _ (eval_progress recv Γ env log _ hrecv he) ?_
      intro b hb
      obtain ⟨v, l⟩ := b
      have hv := ok_typed cx tcx himpl hwf htot recv Γ env log _ hrecv he v l hb
      simp only [ValOK] at hv
      obtain ⟨j, a, rfl⟩ := hv
      cases m <;> simp
    · cases ht
  | .ref e, Γ, env, log, τ, ht, he => by
    simp only [Expr.ty] at ht
    cases hte : e.ty tcx Γ with
    | none => simp [hte] at ht
    | some t => simp only [eval]; exact eval_progress e Γ env log t hte he
  | .refMut e, Γ, env, log, τ, ht, he => by
    simp only [Expr.ty] at ht
    cases hte : e.ty tcx Γ with
    | none => simp [hte] at ht
    | some t => simp only [eval]; exact eval_progress e Γ env log t hte he
  | .deref e, Γ, env, log, τ, ht, he => by
    simp only [Expr.ty] at ht
    cases hte : e.ty tcx Γ with
    | none => simp [hte] at ht
    | some t => simp only [eval]; exact eval_progress e Γ env log t hte he
  | .cast e _, Γ, env, log, τ, ht, he => by
    simp only [Expr.ty] at ht
    cases hte : e.ty tcx Γ with
    | none => simp [hte] at ht
    | some t =>
      simp only [eval]
      refine bind_ne_stuck _ _ (eval_progress e Γ env log t hte he) ?_
      intro b hb
      obtain ⟨v, l⟩ := b
      have hv := ok_typed cx tcx himpl hwf htot e Γ env log t hte he v l hb
      simp only [hte] at ht
      split at ht
      · rename_i heq; cases heq
        simp only [ValOK] at hv; obtain ⟨n, rfl⟩ := hv; simp
      · rename_i heq; cases heq
        split at ht
        · rename_i hfl
          obtain ⟨k, fs, rfl⟩ := wfVal_adt (by simpa [ValOK] using hv)
          simp [htot.fieldless hfl]
        · cases ht
      · cases ht
  | .binop op a b, Γ, env, log, τ, ht, he => by
    simp only [Expr.ty] at ht
    split at ht
    · rename_i ta tb hta htb
      have pa := eval_progress a Γ env log ta hta he
      cases op
      · have hb : ta = .bool ∧ tb = .bool := by unfold binopTy at ht; split at ht <;> simp_all
        obtain ⟨rfl, rfl⟩ := hb
        simp only [eval]
        refine bind_ne_stuck _ _ pa ?_
        intro r hr
        obtain ⟨v, l⟩ := r
        have hv := ok_typed cx tcx himpl hwf htot a Γ env log _ hta he v l hr
        simp only [ValOK] at hv; obtain ⟨x, rfl⟩ := hv
        cases x
        · simp
        · simp only; exact eval_progress b Γ env l .bool htb he
      · have hb : ta = .bool ∧ tb = .bool := by unfold binopTy at ht; split at ht <;> simp_all
        obtain ⟨rfl, rfl⟩ := hb
        simp only [eval]
        refine bind_ne_stuck _ _ pa ?_
        intro r hr
        obtain ⟨v, l⟩ := r
        have hv := ok_typed cx tcx himpl hwf htot a Γ env log _ hta he v l hr
        simp only [ValOK] at hv; obtain ⟨x, rfl⟩ := hv
        cases x
        · simp only; exact eval_progress b Γ env l .bool htb he
        · simp
      · simp only [eval]
        refine bind_ne_stuck _ _ pa ?_
        intro r hr
        obtain ⟨va, l⟩ := r
        have hva := ok_typed cx tcx himpl hwf htot a Γ env log _ hta he va l hr
        refine bind_ne_stuck _ _ (eval_progress b Γ env l tb htb he) ?_
        intro r' hr'
        obtain ⟨vb, l'⟩ := r'
        have hvb := ok_typed cx tcx himpl hwf htot b Γ env l _ htb he vb l' hr'
        have := binop_progress tcx.it .eq ta tb τ va vb ht hva hvb (Or.inl rfl)
        simp only
        cases h : applyBinop .eq va vb with
        | none => simp [h] at this
        | some v => simp
      · simp only [eval]
        refine bind_ne_stuck _ _ pa ?_
        intro r hr
        obtain ⟨va, l⟩ := r
        have hva := ok_typed cx tcx himpl hwf htot a Γ env log _ hta he va l hr
        refine bind_ne_stuck _ _ (eval_progress b Γ env l tb htb he) ?_
        intro r' hr'
        obtain ⟨vb, l'⟩ := r'
        have hvb := ok_typed cx tcx himpl hwf htot b Γ env l _ htb he vb l' hr'
        have := binop_progress tcx.it .add ta tb τ va vb ht hva hvb (Or.inr rfl)
        simp only
        cases h : applyBinop .add va vb with
        | none => simp [h] at this
        | some v => simp
    · cases ht
  | .paren e, Γ, env, log, τ, ht, he => by
    simp only [Expr.ty] at ht
    simp only [eval]
    exact eval_progress e Γ env log τ ht he
  | .tuple es, Γ, env, log, τ, ht, he => by
    simp only [Expr.ty] at ht
    split at ht
    · rename_i a b hts
      simp only [eval]
      refine bind_ne_stuck _ _ (evalList_progress es Γ env log [a, b] hts he) ?_
      intro r _; simp
    · cases ht
  | .ifElse c t e, Γ, env, log, τ, ht, he => by
    simp only [Expr.ty] at ht
    split at ht
    · rename_i tt te hc htt hte
      simp only [eval]
      refine bind_ne_stuck _ _ (eval_progress c Γ env log .bool hc he) ?_
      intro r hr
      obtain ⟨v, l⟩ := r
      have hv := ok_typed cx tcx himpl hwf htot c Γ env log _ hc he v l hr
      simp only [ValOK] at hv; obtain ⟨x, rfl⟩ := hv
      cases x
      · simp only; exact eval_progress e Γ env l te hte he
      · simp only; exact eval_progress t Γ env l tt htt he
    · cases ht
  | .match_ s' arms, Γ, env, log, τ, ht, he => by
    simp only [Expr.ty] at ht
    split at ht
    · rename_i ts hs
      split at ht
      · rename_i hex
        simp only [eval]
        refine bind_ne_stuck _ _ (eval_progress s' Γ env log ts hs he) ?_
        intro r hr
        obtain ⟨v, l⟩ := r
        have hv := ok_typed cx tcx himpl hwf htot s' Γ env log _ hs he v l hr
        exact evalArms_progress arms Γ env l v ts τ ht hv he (exhaustive_witness tcx.it ts arms v hex hv)
      · cases ht
    · cases ht
  | .block stmts tail, Γ, env, log, τ, ht, he => by
    simp only [Expr.ty] at ht
    split at ht
    · rename_i Γ' hst
      simp only [eval]
      refine bind_ne_stuck _ _ (evalStmts_progress stmts Γ env log Γ' hst he) ?_
      intro r hr
      obtain ⟨env', l⟩ := r
      have henv := evalStmts_preserves cx tcx himpl hwf stmts Γ env log Γ' hst he
      rw [hr] at henv
      exact eval_progress tail Γ' env' l τ ht henv
    · cases ht
  | .unsafe_ e, Γ, env, log, τ, ht, he => by
    simp only [Expr.ty] at ht
    simp only [eval]
    exact eval_progress e Γ env log τ ht he
  | .ptrRead e _, Γ, env, log, τ, ht, he => by
    simp only [Expr.ty] at ht
    split at ht
    · rename_i hte
      simp only [eval]
      refine bind_ne_stuck _ _ (eval_progress e Γ env log _ hte he) ?_
      intro b hb
      obtain ⟨v, l⟩ := b
      have hv := ok_typed cx tcx himpl hwf htot e Γ env log _ hte he v l hb
      obtain ⟨k, fs, rfl⟩ := wfVal_adt (by simpa [ValOK] using hv)
      simp only
      split <;> simp
    · cases ht
  | .ret e, Γ, env, log, τ, ht, he => by
    simp only [Expr.ty] at ht
    split at ht
    · rename_i t hte
      simp only [eval]
      refine bind_ne_stuck _ _ (eval_progress e Γ env log t hte he) ?_
      intro b _; simp
    · cases ht
  | .structLit k fields, Γ, env, log, τ, ht, he => by
    simp only [Expr.ty] at ht
    split at ht
    · split at ht
      · rename_i hc
        simp only [eval]
        refine bind_ne_stuck _ _ (evalFields_progress fields Γ env log k 0 hc.2.1 he) ?_
        intro b _; simp
      · cases ht
    · cases ht
  | .matches_ e p, Γ, env, log, τ, ht, he => by
    simp only [Expr.ty] at ht
    split at ht
    · rename_i t hte
      simp only [eval]
      refine bind_ne_stuck _ _ (eval_progress e Γ env log t hte he) ?_
      intro b _; simp
    · cases ht
  | .unreachable, Γ, env, log, τ, _, _ => by simp [eval]
  | .unit, Γ, env, log, τ, _, _ => by simp [eval]
  | .seq es, Γ, env, log, τ, ht, he => by
    match es, ht with
    | [e], ht =>
      simp only [Expr.ty] at ht
      simp only [eval]
      exact eval_progress e Γ env log τ ht he
    | [], ht => simp [Expr.ty] at ht
    | _ :: _ :: _, ht => simp [Expr.ty] at ht
theorem evalList_progress : ∀ (es : List Expr) (Γ : TEnv) (env : Env α) (log : Log α) (ts : List Ty),
    Expr.tys tcx Γ es = some ts → EnvOK tcx.it env Γ → evalList cx env log es ≠ .stuck
  | [], Γ, env, log, ts, _, _ => by simp [evalList]
  | e :: es, Γ, env, log, ts, ht, he => by
    simp only [Expr.tys] at ht
    split at ht
    · rename_i t ts' hte hts
      simp only [evalList]
      refine bind_ne_stuck _ _ (eval_progress e Γ env log t hte he) ?_
      intro b _
      obtain ⟨v, l⟩ := b
      refine bind_ne_stuck _ _ (evalList_progress es Γ env l ts' hts he) ?_
      intro b' _; simp
    · cases ht
theorem evalArms_progress : ∀ (arms : List Arm) (Γ : TEnv) (env : Env α) (log : Log α) (v : Val α) (ts τ : Ty),
    Arm.tys tcx Γ ts arms = some τ → ValOK tcx.it v ts → EnvOK tcx.it env Γ →
      (∃ a ∈ arms, (matchPat a.pat v).isSome = true) → evalArms cx env log v arms ≠ .stuck
  | [], Γ, env, log, v, ts, τ, _, _, _, hw => by obtain ⟨a, ha, _⟩ := hw; simp at ha
  | .mk p e c :: arms, Γ, env, log, v, ts, τ, ht, hv, he, hw => by
    simp only [Arm.tys] at ht
    split at ht
    · rename_i bt hbt
      split at ht
      · rename_i t t' hte hrest
        simp only [evalArms]
        split
        · rename_i b hb
          exact eval_progress e (bt ++ Γ) (b ++ env) log t hte
            (EnvOK.extend (matchPat_preserves tcx.it p v ts b bt hbt hv hb) he)
        · rename_i hnone
          refine evalArms_progress arms Γ env log v ts t' hrest hv he ?_
          obtain ⟨a, ha, hm⟩ := hw
          rcases List.mem_cons.mp ha with rfl | ha'
          · simp [Arm.pat, hnone] at hm
          · exact ⟨a, ha', hm⟩
      · cases ht
    · cases ht
theorem evalFields_progress : ∀ (fs : List FieldInit) (Γ : TEnv) (env : Env α) (log : Log α) (k j : Nat),
    FieldInit.check tcx Γ k j fs = true → EnvOK tcx.it env Γ → evalFields cx env log fs ≠ .stuck
  | [], Γ, env, log, k, j, _, _ => by simp [evalFields]
  | .mk i e :: fs, Γ, env, log, k, j, hc, he => by
    simp only [FieldInit.check, Bool.and_eq_true, decide_eq_true_eq] at hc
    obtain ⟨⟨_, hte⟩, hrest⟩ := hc
    cases hty : e.ty tcx Γ with
    | none => simp [hty] at hte
    | some t =>
      simp only [evalFields]
      refine bind_ne_stuck _ _ (eval_progress e Γ env log t hty he) ?_
      intro b _
      obtain ⟨v, l⟩ := b
      refine bind_ne_stuck _ _ (evalFields_progress fs Γ env l k (j + 1) hrest he) ?_
      intro b' _; simp
theorem evalStmts_progress : ∀ (ss : List Stmt) (Γ : TEnv) (env : Env α) (log : Log α) (Γ' : TEnv),
    Stmt.checks tcx Γ ss = some Γ' → EnvOK tcx.it env Γ → evalStmts cx env log ss ≠ .stuck
  | [], Γ, env, log, Γ', _, _ => by simp [evalStmts]
  | .let_ p e :: ss, Γ, env, log, Γ', ht, he => by
    simp only [Stmt.checks, Stmt.check] at ht
    cases hte : e.ty tcx Γ with
    | none => simp [hte] at ht
    | some t =>
      simp only [hte] at ht
      cases htot' : p.total tcx.it t with
      | false => simp [htot'] at ht
      | true =>
        cases hbt : p.bindTy tcx.it t with
        | none => simp [hbt, htot'] at ht
        | some bt =>
          simp only [hbt, htot', if_true, Option.map] at ht
          simp only [evalStmts]
          refine bind_ne_stuck _ _ (eval_progress e Γ env log t hte he) ?_
          intro b hb
          obtain ⟨v, l⟩ := b
          have hv := ok_typed cx tcx himpl hwf htot e Γ env log _ hte he v l hb
          have hm := total_matches tcx.it p v t htot' hv
          simp only
          cases hmp : matchPat p v with
          | none => simp [hmp] at hm
          | some bs =>
            simp only
            exact evalStmts_progress ss (bt ++ Γ) (bs ++ env) l Γ' ht
              (EnvOK.extend (matchPat_preserves tcx.it p v t bs bt hbt hv hmp) he)
  | .semi e :: ss, Γ, env, log, Γ', ht, he => by
    simp only [Stmt.checks, Stmt.check] at ht
    cases hte : e.ty tcx Γ with
    | none => simp [hte] at ht
    | some t =>
      simp only [hte, Option.isSome_some, if_true] at ht
      simp only [evalStmts]
      refine bind_ne_stuck _ _ (eval_progress e Γ env log t hte he) ?_
      intro b _
      obtain ⟨v, l⟩ := b
      exact evalStmts_progress ss Γ env l Γ' ht he
  | .ifRet c r :: ss, Γ, env, log, Γ', ht, he => by
    simp only [Stmt.checks, Stmt.check] at ht
    split at ht
    · rename_i Γ1 hchk
      split at hchk
      · rename_i t hc hr
        split at hchk
        · cases hchk
          simp only [evalStmts]
          refine bind_ne_stuck _ _ (eval_progress c Γ env log .bool hc he) ?_
          intro b hb
          obtain ⟨v, l⟩ := b
          have hv := ok_typed cx tcx himpl hwf htot c Γ env log _ hc he v l hb
          simp only [ValOK] at hv; obtain ⟨x, rfl⟩ := hv
          cases x
          · simp only; exact evalStmts_progress ss Γ env l Γ' ht he
          · simp only
            refine bind_ne_stuck _ _ (eval_progress r Γ env l t hr he) ?_
            intro b' _; simp
        · cases hchk
      · cases hchk
    · cases ht
  | .assertEq k i :: ss, Γ, env, log, Γ', ht, he => by
    simp only [Stmt.checks, Stmt.check] at ht
    split at ht
    · rename_i Γ1 hchk
      have : Γ1 = Γ := by
        split at hchk
        · split at hchk <;> simp_all
        · cases hchk
      subst this
      simp only [evalStmts]
      exact evalStmts_progress ss Γ1 env log Γ' ht he
    · cases ht
  | .assertCopySelf :: ss, Γ, env, log, Γ', ht, he => by
    simp only [Stmt.checks, Stmt.check] at ht
    simp only [evalStmts]
    exact evalStmts_progress ss Γ env log Γ' ht he
  | .structAssertEq :: ss, Γ, env, log, Γ', ht, he => by
    simp only [Stmt.checks, Stmt.check] at ht
    simp only [evalStmts]
    exact evalStmts_progress ss Γ env log Γ' ht he
  | .structAssertCopy :: ss, Γ, env, log, Γ', ht, he => by
    simp only [Stmt.checks, Stmt.check] at ht
    simp only [evalStmts]
    exact evalStmts_progress ss Γ env log Γ' ht he
  | .discFn _ validate body :: ss, Γ, env, log, Γ', ht, he => by
    simp only [Stmt.checks, Stmt.check] at ht
    split at ht
    · rename_i Γ1 hchk
      have : Γ1 = Γ := by
        split at hchk
        · split at hchk <;> simp_all
        · cases hchk
      subst this
      simp only [evalStmts]
      exact evalStmts_progress ss Γ1 env log Γ' ht he
    · cases ht
  | .validateDef _ e :: ss, Γ, env, log, Γ', ht, he => by
    simp only [Stmt.checks, Stmt.check] at ht
    split at ht
    · rename_i Γ1 hchk
      have : Γ1 = Γ := by
        split at hchk <;> simp_all
      subst this
      simp only [evalStmts]
      exact evalStmts_progress ss Γ1 env log Γ' ht he
    · cases ht
  | .useTrait :: ss, Γ, env, log, Γ', ht, he => by
    simp only [Stmt.checks, Stmt.check] at ht
    simp only [evalStmts]
    exact evalStmts_progress ss Γ env log Γ' ht he
  | .useAsserts :: ss, Γ, env, log, Γ', ht, he => by
    simp only [Stmt.checks, Stmt.check] at ht
    simp only [evalStmts]
    exact evalStmts_progress ss Γ env log Γ' ht he
end

end Main

end DW
