import DW.Lemmas.Preserve

/-!
# Well-typed expressions do not get stuck (progress)

The evaluator's `stuck` outcome stands for "rustc would have rejected this program": an unbound name, a library call
on arguments of the wrong shape, a `match` without a matching arm, a cast of a value that is no field-less enum.
This file shows that the static checks of `DW/Typing.lean` (typing + exhaustiveness) exclude it: a well-typed
expression evaluated in an environment that agrees with its typing context ends in a value, an early `return`, a
panic or undefined behaviour — never in `stuck`.  Together with `eval_preserves` this is type soundness for the
fragment.  The semantic context has to be total where the static checks rely on it (`CxTotal`): explicit
discriminants are known for the variants that have one, sibling impls are defined on well-formed values.
-/

namespace DW

variable {α : Type}

/-- The semantic context is defined where the static checks promise it. -/
structure CxTotal (it : Item) (cx : SemCtx α) : Prop where
  userDiscr : ∀ k d, it.variants[k]? = some d → d.discriminant.isSome = true → (cx.userDiscr k).isSome = true
  fieldless : it.fieldless = true → cx.ti.fieldless = true
  clone : ∀ a, WfVal it a → (cx.impls .clone [a]).isSome = true
  cmp : ∀ a b, WfVal it a → WfVal it b → (cx.impls .cmp [a, b]).isSome = true
  zeroize : ∀ a, WfVal it a → (cx.impls .zeroize [a]).isSome = true

theorem bind_ne_stuck {β γ} (o : Out α β) (f : β → Out α γ) (h1 : o ≠ .stuck) (h2 : ∀ b, o = .ok b → f b ≠ .stuck) :
    o.bind f ≠ .stuck := by
  cases o with
  | ok b => exact h2 b rfl
  | ret v l => simp [Out.bind]
  | ub => simp [Out.bind]
  | panic => simp [Out.bind]
  | stuck => exact absurd rfl h1

/-! ## Argument lists of known length -/

theorem valsOK0 {it : Item} {vs : List (Val α)} (h : ValsOK it vs []) : vs = [] := by
  cases vs <;> simp_all [ValsOK]

theorem valsOK1 {it : Item} {vs : List (Val α)} {t : Ty} (h : ValsOK it vs [t]) : ∃ v, vs = [v] ∧ ValOK it v t := by
  match vs, h with
  | [v], h => exact ⟨v, rfl, h.1⟩
  | [], h => simp [ValsOK] at h
  | _ :: _ :: _, h => simp [ValsOK] at h

theorem valsOK2 {it : Item} {vs : List (Val α)} {t1 t2 : Ty} (h : ValsOK it vs [t1, t2]) :
    ∃ v1 v2, vs = [v1, v2] ∧ ValOK it v1 t1 ∧ ValOK it v2 t2 := by
  match vs, h with
  | [v1, v2], h => exact ⟨v1, v2, rfl, h.1, h.2.1⟩
  | [], h => simp [ValsOK] at h
  | [_], h => simp [ValsOK] at h
  | _ :: _ :: _ :: _, h => simp [ValsOK] at h

theorem valsOK3 {it : Item} {vs : List (Val α)} {t1 t2 t3 : Ty} (h : ValsOK it vs [t1, t2, t3]) :
    ∃ v1 v2 v3, vs = [v1, v2, v3] ∧ ValOK it v1 t1 ∧ ValOK it v2 t2 ∧ ValOK it v3 t3 := by
  match vs, h with
  | [v1, v2, v3], h => exact ⟨v1, v2, v3, rfl, h.1, h.2.1, h.2.2.1⟩
  | [], h => simp [ValsOK] at h
  | [_], h => simp [ValsOK] at h
  | [_, _], h => simp [ValsOK] at h
  | _ :: _ :: _ :: _ :: _, h => simp [ValsOK] at h

theorem wfVal_adt {it : Item} {v : Val α} (h : WfVal it v) : ∃ k fs, v = .adt k fs := by
  cases v <;> simp_all [WfVal]

/-- A well-typed library call is defined. -/
theorem applyFn_progress (it : Item) (cx : SemCtx α) (f : Fn) (vs : List (Val α)) (ts : List Ty) (τ : Ty)
    (log : Log α) (hty : applyFnTy it f ts = some τ) (hvs : ValsOK it vs ts) : applyFn cx f vs log ≠ .stuck := by
  by_cases hc : ∃ k, f = .ctor k
  · obtain ⟨k, rfl⟩ := hc
    unfold applyFn
    split <;> simp_all
  · unfold applyFnTy at hty
    split at hty
    all_goals (try (exfalso; exact hc ⟨_, rfl⟩))
    all_goals (try (simp only [Option.some.injEq, reduceCtorEq] at hty))
    all_goals first
      | (obtain ⟨v1, v2, v3, rfl, h1, h2, h3⟩ := valsOK3 hvs
         simp only [ValOK] at h1 h2 h3
         subst h1; obtain ⟨s, rfl⟩ := h2; obtain ⟨a, rfl⟩ := h3
         simp [applyFn])
      | (obtain ⟨v1, v2, rfl, h1, h2⟩ := valsOK2 hvs
         simp only [ValOK] at h1 h2
         first
           | (obtain ⟨a, rfl⟩ := h1; obtain ⟨b, rfl⟩ := h2; simp [applyFn])
           | (obtain ⟨a, rfl⟩ := h1; subst h2; simp [applyFn])
           | (subst h1; obtain ⟨b, rfl⟩ := h2; simp [applyFn]))
      | (obtain ⟨v1, rfl, h1⟩ := valsOK1 hvs
         simp only [ValOK] at h1
         first
           | (obtain ⟨k, fs, rfl⟩ := wfVal_adt h1; simp [applyFn])
           | (obtain ⟨j, a, rfl⟩ := h1; simp [applyFn])
           | (obtain ⟨a, rfl⟩ := h1; simp [applyFn])
           | (subst h1; simp [applyFn]))
      | (have := valsOK0 hvs; subst this; simp [applyFn])
      | (cases hty)

/-! ## Patterns -/

mutual
/-- An irrefutable pattern matches every value of its type. -/
theorem total_matches (it : Item) : ∀ (p : Pat) (v : Val α) (t : Ty),
    p.total it t = true → ValOK it v t → (matchPat p v).isSome = true
  | .wild, v, t, _, _ => by simp [matchPat]
  | .rest, v, t, _, _ => by simp [matchPat]
  | .bind m x, v, t, _, _ => by simp [matchPat]
  | .ctor k s m, v, t, ht, hv => by
    simp only [Pat.total, Bool.and_eq_true, beq_iff_eq] at ht
    obtain ⟨⟨hsr, hlen⟩, rfl⟩ := ht
    have hw := selfRef_val hsr hv
    obtain ⟨k', fs, rfl⟩ := wfVal_adt hw
    obtain ⟨d, hd, _⟩ := hw
    have : k' < it.variants.length := by
      rcases Nat.lt_or_ge k' it.variants.length with h | h
      · exact h
      · rw [List.getElem?_eq_none h] at hd; cases hd
    have : k' = 0 := by omega
    subst this
    simp [matchPat]
  | .ctorAny k, v, t, ht, hv => by
    simp only [Pat.total, Bool.and_eq_true, beq_iff_eq] at ht
    obtain ⟨⟨hsr, hlen⟩, rfl⟩ := ht
    have hw := selfRef_val hsr hv
    obtain ⟨k', fs, rfl⟩ := wfVal_adt hw
    obtain ⟨d, hd, _⟩ := hw
    have : k' < it.variants.length := by
      rcases Nat.lt_or_ge k' it.variants.length with h | h
      · exact h
      · rw [List.getElem?_eq_none h] at hd; cases hd
    have : k' = 0 := by omega
    subst this
    simp [matchPat]
  | .equal, v, t, ht, _ => by simp [Pat.total] at ht
  | .someEqual, v, t, ht, _ => by simp [Pat.total] at ht
  | .tuple ps, v, t, ht, hv => by
    cases t <;> simp only [Pat.total, reduceCtorEq, Bool.false_eq_true] at ht
    rename_i a b
    simp only [ValOK] at hv
    obtain ⟨x, y, rfl, hx, hy⟩ := hv
    simp only [matchPat]
    exact totals_matches it ps [x, y] [a, b] ht ⟨hx, hy, trivial⟩
  | .or ps, v, t, ht, hv => by
    simp only [Pat.total] at ht
    simp only [matchPat]
    exact anyTotal_matches it ps v t ht hv
theorem totals_matches (it : Item) : ∀ (ps : List Pat) (vs : List (Val α)) (ts : List Ty),
    Pat.totals it ps ts = true → ValsOK it vs ts → (matchPats ps vs).isSome = true
  | [], vs, ts, ht, hv => by
    cases ts <;> simp only [Pat.totals, reduceCtorEq, Bool.false_eq_true] at ht
    have := valsOK0 hv; subst this; simp [matchPats]
  | p :: ps, vs, ts, ht, hv => by
    cases ts with
    | nil => simp [Pat.totals] at ht
    | cons t ts =>
      cases vs with
      | nil => simp [ValsOK] at hv
      | cons v vs =>
        simp only [Pat.totals, Bool.and_eq_true] at ht
        simp only [ValsOK] at hv
        by_cases hr : p = .rest ∧ ps = []
        · obtain ⟨rfl, rfl⟩ := hr; simp [matchPats]
        · rw [matchPats_cons p ps v vs hr]
          have h1 := total_matches it p v t ht.1 hv.1
          have h2 := totals_matches it ps vs ts ht.2 hv.2
          cases hp : matchPat p v with
          | none => simp [hp] at h1
          | some e1 =>
            cases hps : matchPats ps vs with
            | none => simp [hps] at h2
            | some e2 => simp
theorem anyTotal_matches (it : Item) : ∀ (ps : List Pat) (v : Val α) (t : Ty),
    Pat.anyTotal it ps t = true → ValOK it v t → (matchAny ps v).isSome = true
  | [], v, t, ht, _ => by simp [Pat.anyTotal] at ht
  | p :: ps, v, t, ht, hv => by
    simp only [Pat.anyTotal, Bool.or_eq_true] at ht
    simp only [matchAny]
    cases hp : matchPat p v with
    | some e => simp
    | none =>
      simp only
      rcases ht with h | h
      · have := total_matches it p v t h hv; simp [hp] at this
      · exact anyTotal_matches it ps v t h hv
end

mutual
/-- A pattern that covers variant `k` matches every value of that variant. -/
theorem covers_matches : ∀ (p : Pat) (k : Nat) (fs : List (Val α)),
    p.coversVariant k = true → (matchPat p (.adt k fs)).isSome = true
  | .wild, k, fs, _ => by simp [matchPat]
  | .rest, k, fs, _ => by simp [matchPat]
  | .bind m x, k, fs, _ => by simp [matchPat]
  | .ctor k' s m, k, fs, h => by
    simp only [Pat.coversVariant, beq_iff_eq] at h; subst h; simp [matchPat]
  | .ctorAny k', k, fs, h => by
    simp only [Pat.coversVariant, beq_iff_eq] at h; subst h; simp [matchPat]
  | .equal, k, fs, h => by simp [Pat.coversVariant] at h
  | .someEqual, k, fs, h => by simp [Pat.coversVariant] at h
  | .tuple ps, k, fs, h => by simp [Pat.coversVariant] at h
  | .or ps, k, fs, h => by
    simp only [Pat.coversVariant] at h
    simp only [matchPat]
    exact anyCovers_matches ps k fs h
theorem anyCovers_matches : ∀ (ps : List Pat) (k : Nat) (fs : List (Val α)),
    Pat.anyCovers k ps = true → (matchAny ps (.adt k fs)).isSome = true
  | [], k, fs, h => by simp [Pat.anyCovers] at h
  | p :: ps, k, fs, h => by
    simp only [Pat.anyCovers, Bool.or_eq_true] at h
    simp only [matchAny]
    cases hp : matchPat p (Val.adt k fs) with
    | some e => simp
    | none =>
      simp only
      rcases h with h | h
      · have := covers_matches p k fs h; simp [hp] at this
      · exact anyCovers_matches ps k fs h
end

/-- An exhaustive `match` has an arm for every value of the scrutinee's type. -/
theorem exhaustive_witness (it : Item) (t : Ty) (arms : List Arm) (v : Val α)
    (hex : Arms.exhaustive it t arms = true) (hv : ValOK it v t) :
    ∃ a ∈ arms, (matchPat a.pat v).isSome = true := by
  simp only [Arms.exhaustive, Bool.or_eq_true, List.any_eq_true, Bool.and_eq_true, List.all_eq_true,
    List.mem_range] at hex
  rcases hex with ⟨a, ha, htot⟩ | ⟨hsr, hall⟩
  · exact ⟨a, ha, total_matches it a.pat v t htot hv⟩
  · have hw := selfRef_val hsr hv
    obtain ⟨k, fs, rfl⟩ := wfVal_adt hw
    obtain ⟨d, hd, _⟩ := hw
    have hk : k < it.variants.length := by
      rcases Nat.lt_or_ge k it.variants.length with h | h
      · exact h
      · rw [List.getElem?_eq_none h] at hd; cases hd
    obtain ⟨a, ha, hc⟩ := hall k hk
    exact ⟨a, ha, covers_matches a.pat k fs hc⟩

theorem binop_progress (it : Item) (op : BinOp) (ta tb τ : Ty) (va vb : Val α)
    (hty : binopTy op ta tb = some τ) (ha : ValOK it va ta) (hb : ValOK it vb tb) (hop : op = .eq ∨ op = .add) :
    (applyBinop op va vb).isSome = true := by
  unfold binopTy at hty
  split at hty <;> simp only [Option.some.injEq, reduceCtorEq] at hty <;>
    simp only [ValOK] at ha hb <;> obtain ⟨x, rfl⟩ := ha <;> obtain ⟨y, rfl⟩ := hb <;>
    first | (simp [applyBinop]; done) | (exfalso; rcases hop with h | h <;> cases h)

end DW
