import DW.Syntactic4
import DW.Props.C05

/-!
# Which trait obligations do the generated bodies raise? (helper lemmas for C02)

Ported from the method-call traversal of C14: every wrapper of `build_signature` mentions field bindings only
through the per-variant arms, and those mention exactly the fields `Data::iter_fields` yields.
-/

namespace DW

variable {ok : Oblig → Bool}

theorem Arm.anyOblBad_append (l1 l2 : List Arm) :
    Arm.anyOblBad ok (l1 ++ l2) = (Arm.anyOblBad ok l1 || Arm.anyOblBad ok l2) := by
  induction l1 with
  | nil => simp [Arm.anyOblBad]
  | cons a l ih => cases a; simp [Arm.anyOblBad, ih, Bool.or_assoc]

theorem Stmt.anyOblBad_append (l1 l2 : List Stmt) :
    Stmt.anyOblBad ok (l1 ++ l2) = (Stmt.anyOblBad ok l1 || Stmt.anyOblBad ok l2) := by
  induction l1 with
  | nil => simp [Stmt.anyOblBad]
  | cons a l ih => simp [Stmt.anyOblBad, ih, Bool.or_assoc]

theorem Arm.anyOblBad_flatMap {β} (l : List β) (f : β → List Arm) (h : ∀ x ∈ l, Arm.anyOblBad ok (f x) = false) :
    Arm.anyOblBad ok (l.flatMap f) = false := by
  induction l with
  | nil => simp [Arm.anyOblBad]
  | cons a l ih =>
    simp only [List.flatMap_cons, Arm.anyOblBad_append, h a (by simp), Bool.false_or]
    exact ih (fun x hx => h x (by simp [hx]))

theorem Stmt.anyOblBad_flatMap {β} (l : List β) (f : β → List Stmt)
    (h : ∀ x ∈ l, Stmt.anyOblBad ok (f x) = false) : Stmt.anyOblBad ok (l.flatMap f) = false := by
  induction l with
  | nil => simp [Stmt.anyOblBad]
  | cons a l ih =>
    simp only [List.flatMap_cons, Stmt.anyOblBad_append, h a (by simp), Bool.false_or]
    exact ih (fun x hx => h x (by simp [hx]))

theorem Stmt.anyOblBad_map {β} (l : List β) (f : β → Stmt) (h : ∀ x ∈ l, (f x).oblBad ok = false) :
    Stmt.anyOblBad ok (l.map f) = false := by
  induction l with
  | nil => simp [Stmt.anyOblBad]
  | cons a l ih => simp [Stmt.anyOblBad, h a (by simp), ih (fun x hx => h x (by simp [hx]))]

theorem Expr.anyOblBad_map {β} (l : List β) (f : β → Expr) (h : ∀ x ∈ l, (f x).oblBad ok = false) :
    Expr.anyOblBad ok (l.map f) = false := by
  induction l with
  | nil => simp [Expr.anyOblBad]
  | cons a l ih => simp [Expr.anyOblBad, h a (by simp), ih (fun x hx => h x (by simp [hx]))]

theorem FieldInit.anyOblBad_map {β} (l : List β) (i : β → Nat) (f : β → Expr)
    (h : ∀ x ∈ l, (f x).oblBad ok = false) :
    FieldInit.anyOblBad ok (l.map fun x => FieldInit.mk (i x) (f x)) = false := by
  induction l with
  | nil => simp [FieldInit.anyOblBad]
  | cons a l ih => simp [FieldInit.anyOblBad, h a (by simp), ih (fun x hx => h x (by simp [hx]))]

theorem Arm.anyOblBad_map {β} (l : List β) (f : β → Arm)
    (h : ∀ x, Arm.anyOblBad ok [f x] = false) : Arm.anyOblBad ok (l.map f) = false := by
  induction l with
  | nil => simp [Arm.anyOblBad]
  | cons a l ih =>
    have := h a
    cases hfa : f a with
    | mk p e c =>
      rw [hfa] at this
      simp only [Arm.anyOblBad, Bool.or_false] at this
      simp [Arm.anyOblBad, hfa, this, ih]

theorem eqChain_obl (k : Nat) (fs : List (Nat × Field)) (hok : ∀ p ∈ fs, ok (.field k p.1 .partialEq) = true) :
    (eqChain k fs).oblBad ok = false := by
  unfold eqChain
  suffices h : ∀ acc : Expr, acc.oblBad ok = false →
      (fs.foldl (fun acc (p : Nat × Field) =>
        Expr.binop .and acc (.call (.traitFn .eq) [.var (.selfField k p.1), .var (.otherField k p.1)]))
        acc).oblBad ok = false by
    exact h _ (by simp [Expr.oblBad, Expr.nodeBad, Stmt.nodeBad, argsBad, Expr.fieldRef, TraitFn.trait])
  induction fs with
  | nil => intro acc h; simpa using h
  | cons p fs ih =>
    intro acc h
    simp only [List.foldl_cons]
    exact ih (fun q hq => hok q (by simp [hq])) _ (by simp [Expr.oblBad, Expr.nodeBad, Stmt.nodeBad, argsBad, Expr.fieldRef, TraitFn.trait, Expr.anyOblBad, h, hok p (by simp)])

theorem equalExpr_obl (t : Trait) : (equalExpr t).oblBad ok = false := by
  unfold equalExpr; split <;> simp [Expr.oblBad, Expr.nodeBad, Stmt.nodeBad, argsBad, Expr.fieldRef, TraitFn.trait, Expr.anyOblBad]

theorem ordBody_obl (t : Trait) (k : Nat) (d : Data) (hok : ∀ p ∈ d.iterFields t, ok (.field k p.1 (ordFn t).trait) = true) :
    (ordBody t k d).oblBad ok = false := by
  unfold ordBody
  revert hok
  induction d.iterFields t with
  | nil => intro _; simpa using equalExpr_obl (ok := ok) t
  | cons p fs ih =>
    intro hok
    simp only [List.foldr_cons]
    simp [Expr.oblBad, Expr.nodeBad, argsBad, Expr.fieldRef, Expr.anyOblBad, Arm.anyOblBad, ih (fun q hq => hok q (by simp [hq])), hok p (by simp)]

theorem unreachableRest_obl (c : Cfg) : (unreachableRest c).oblBad ok = false := by
  unfold unreachableRest; split <;> simp [Expr.oblBad, Expr.nodeBad, Stmt.nodeBad, argsBad, Expr.fieldRef, TraitFn.trait, Expr.anyOblBad]

theorem partialEqBody_obl (k : Nat) (d : Data) (hok : ∀ p ∈ d.iterFields .partialEq, ok (.field k p.1 .partialEq) = true) :
    Arm.anyOblBad ok (partialEqBody k d) = false := by
  unfold partialEqBody
  split
  · rfl
  · split <;> simp [Arm.anyOblBad, eqChain_obl (ok := ok) k _ hok]

theorem ordArmsFor_obl (t : Trait) (dw : DeriveWhere) (k : Nat) (d : Data)
    (hok : ∀ t' : Trait, t' = .partialOrd ∨ t' = .ord → ∀ p ∈ d.iterFields t', ok (.field k p.1 t') = true) :
    Arm.anyOblBad ok (ordArmsFor t dw k d) = false := by
  unfold ordArmsFor partialOrdBody ordArms
  split
  · split
    · rfl
    · split <;> simp [Arm.anyOblBad, ordBody_obl (ok := ok) _ k d (hok _ (Or.inl rfl))]
  · split
    · rfl
    · split <;> simp [Arm.anyOblBad, ordBody_obl (ok := ok) _ k d (hok _ (Or.inr rfl))]

theorem eqIncArms_obl (vs : List Data) : Arm.anyOblBad ok (eqIncArms vs) = false := by
  unfold eqIncArms; split <;> simp [Arm.anyOblBad, Expr.oblBad, Expr.nodeBad, Stmt.nodeBad, argsBad, Expr.fieldRef, TraitFn.trait]

theorem eqIncStmts_obl (vs : List Data) : Stmt.anyOblBad ok (eqIncStmts vs) = false := by
  unfold eqIncStmts; split <;> simp [Stmt.anyOblBad, Stmt.oblBad, Expr.oblBad, Expr.nodeBad, Stmt.nodeBad, argsBad, Expr.fieldRef, TraitFn.trait, vSelf]

theorem ordIncStmts_obl (vs : List Data) : Stmt.anyOblBad ok (ordIncStmts vs) = false := by
  unfold ordIncStmts
  split <;> simp [Stmt.anyOblBad, Stmt.oblBad, Expr.oblBad, Expr.nodeBad, Stmt.nodeBad, argsBad, Expr.fieldRef, TraitFn.trait, matchesEither, vSelf, vOther]

theorem toExpr_obl (b : Blk) (h1 : Stmt.anyOblBad ok b.stmts = false) (h2 : b.tail.oblBad ok = false) :
    b.toExpr.oblBad ok = false := by
  unfold Blk.toExpr; split <;> simp_all [Expr.oblBad, Expr.nodeBad, Stmt.nodeBad, argsBad, Expr.fieldRef, TraitFn.trait]

theorem obl_eq (c : Cfg) (it : Item) (hok : ∀ x ∈ it.indexed, ∀ p ∈ x.2.iterFields .partialEq, ok (.field x.1 p.1 .partialEq) = true) :
    (eqMethodBody c it).oblBad ok = false := by
  have harms : Arm.anyOblBad ok (it.indexed.flatMap fun (k, d) => partialEqBody k d) = false :=
    Arm.anyOblBad_flatMap _ _ (fun x hx => partialEqBody_obl (ok := ok) x.1 x.2 (hok x hx))
  unfold eqMethodBody partialEqSignature
  split
  · rfl
  · cases it with
    | item d => simp only; split <;> simp [Expr.oblBad, Expr.nodeBad, Stmt.nodeBad, argsBad, Expr.fieldRef, TraitFn.trait, tupleSO, vSelf, vOther, Expr.anyOblBad, harms]
    | enum_ disc id inc vs =>
      simp only
      split
      · split
        · have hrest : (if (vs.any fun v => v.isEmpty .partialEq && !v.incomparable) = true
              then Expr.litBool true else unreachableRest c).oblBad ok = false := by
            split
            · rfl
            · exact unreachableRest_obl (ok := ok) c
          simp only [Expr.oblBad, Expr.nodeBad, Stmt.nodeBad, argsBad, Expr.fieldRef, TraitFn.trait, discEq, tupleSO, vSelf, vOther, Expr.anyOblBad, Arm.anyOblBad_append,
            harms, eqIncArms_obl (ok := ok), Arm.anyOblBad, hrest, Bool.or_false, Bool.false_or]
        · have := toExpr_obl (ok := ok) ⟨eqIncStmts vs, .litBool true⟩ (eqIncStmts_obl (ok := ok) vs) rfl
          simp [Expr.oblBad, Expr.nodeBad, Stmt.nodeBad, argsBad, Expr.fieldRef, TraitFn.trait, discEq, vSelf, vOther, Expr.anyOblBad, this]
      · split <;> simp [Expr.oblBad, Expr.nodeBad, Stmt.nodeBad, argsBad, Expr.fieldRef, TraitFn.trait, tupleSO, vSelf, vOther, Expr.anyOblBad, harms]

theorem discArms_obl (validate : Bool) (ds : List Expr) (h : Expr.anyOblBad ok ds = false) :
    Arm.anyOblBad ok (discArms validate ds) = false := by
  unfold discArms
  generalize ds.length = n
  suffices hgo : ∀ (l : List Expr) (n0 : Nat), Expr.anyOblBad ok l = false →
      Arm.anyOblBad ok ((l.zipIdx n0).map fun (d, k) =>
        Arm.mk (.ctor k .self_ false) (if validate then .validateConst k d else d) (k + 1 != n)) = false by
    exact hgo ds 0 h
  intro l
  induction l with
  | nil => intros; rfl
  | cons e l ih =>
    intro n0 hl
    simp only [Expr.anyOblBad, Bool.or_eq_false_iff] at hl
    simp only [List.zipIdx_cons, List.map_cons, Arm.anyOblBad, ih (n0 + 1) hl.2, Bool.or_false]
    cases validate <;> simp [Expr.oblBad, Expr.nodeBad, Stmt.nodeBad, argsBad, Expr.fieldRef, TraitFn.trait, hl.1]

theorem buildDiscriminantsGo_obl (vs : List Data) (k : Nat) (st : DiscState) (acc : List Expr)
    (h : Expr.anyOblBad ok acc = false) (hg : ∀ i, (acc.getD i .unit).oblBad ok = false) :
    Expr.anyOblBad ok (buildDiscriminantsGo vs k st acc) = false := by
  have happ : ∀ (l : List Expr) (e : Expr), Expr.anyOblBad ok l = false → e.oblBad ok = false →
      Expr.anyOblBad ok (l ++ [e]) = false := by
    intro l e
    induction l with
    | nil => intro _ he; simp [Expr.anyOblBad, he]
    | cons x l ih =>
      intro hl he
      simp only [Expr.anyOblBad, Bool.or_eq_false_iff] at hl
      simp [Expr.anyOblBad, hl.1, ih hl.2 he]
  have hgetD : ∀ (l : List Expr) (e : Expr), (∀ i, (l.getD i .unit).oblBad ok = false) →
      e.oblBad ok = false → ∀ i, ((l ++ [e]).getD i .unit).oblBad ok = false := by
    intro l e hl he i
    by_cases hi : i < l.length
    · have := hl i
      simpa [List.getD, List.getElem?_append_left hi] using this
    · by_cases hi2 : i = l.length
      · subst hi2; simp [List.getD, he]
      · have : l.length + 1 ≤ i := by omega
        simp [List.getD, List.getElem?_eq_none (l := l ++ [e]) (by simp; omega), Expr.oblBad]
  induction vs generalizing k st acc with
  | nil => simpa [buildDiscriminantsGo] using h
  | cons v vs ih =>
    unfold buildDiscriminantsGo
    split
    · exact ih _ _ _ (happ _ _ h rfl) (hgetD _ _ hg rfl)
    · split
      · rename_i idx counter
        have he : (Expr.binop .add (.paren (acc.getD idx .unit)) (.litInt (counter + 1))).oblBad ok = false := by
          have := hg idx
          simp only [Expr.oblBad, Expr.nodeBad, Stmt.nodeBad, argsBad, Expr.fieldRef, TraitFn.trait, this, Bool.or_false]
        exact ih _ _ _ (happ _ _ h he) (hgetD _ _ hg he)
      · exact ih _ _ _ (happ _ _ h rfl) (hgetD _ _ hg rfl)
      · exact ih _ _ _ (happ _ _ h rfl) (hgetD _ _ hg rfl)

theorem buildDiscriminants_obl (vs : List Data) : Expr.anyOblBad ok (buildDiscriminants vs) = false :=
  buildDiscriminantsGo_obl (ok := ok) vs 0 none [] rfl (fun i => by simp [List.getD, Expr.oblBad, Expr.nodeBad, Stmt.nodeBad, argsBad, Expr.fieldRef, TraitFn.trait])

theorem discriminantComparison_obl (repr : Option IntTy) (validate : Option (List Stmt))
    (vs : List Data) (m : TraitFn) (hv : Stmt.anyOblBad ok (validate.getD []) = false) :
    Stmt.anyOblBad ok (discriminantComparison repr validate (buildDiscriminants vs) m).stmts = false ∧
    (discriminantComparison repr validate (buildDiscriminants vs) m).tail.oblBad ok = false := by
  have := discArms_obl (ok := ok) validate.isSome _ (buildDiscriminants_obl (ok := ok) vs)
  simp [discriminantComparison, Stmt.anyOblBad, Stmt.oblBad, Expr.oblBad, Expr.nodeBad, Stmt.nodeBad, argsBad, Expr.fieldRef, TraitFn.trait, Expr.anyOblBad, discCall, this, hv]

theorem validateDefs_obl (vs : List Data) :
    Stmt.anyOblBad ok ((buildDiscriminants vs).zipIdx.map fun (d, k) => Stmt.validateDef k d) = false := by
  have h := buildDiscriminants_obl (ok := ok) vs
  generalize buildDiscriminants vs = l at h
  suffices hgo : ∀ (l : List Expr) (n0 : Nat), Expr.anyOblBad ok l = false →
      Stmt.anyOblBad ok ((l.zipIdx n0).map fun (d, k) => Stmt.validateDef k d) = false by
    exact hgo l 0 h
  intro l
  induction l with
  | nil => intros; rfl
  | cons e l ih =>
    intro n0 hl
    simp only [Expr.anyOblBad, Bool.or_eq_false_iff] at hl
    simp [Stmt.anyOblBad, Stmt.oblBad, hl.1, ih (n0 + 1) hl.2]

theorem castCmp_obl (m : TraitFn) (conv : Expr → Expr) (h1 : (conv vSelf).oblBad ok = false)
    (h2 : (conv vOther).oblBad ok = false) : (castCmp m conv).oblBad ok = false := by
  simp [castCmp, Expr.oblBad, Expr.nodeBad, Stmt.nodeBad, argsBad, Expr.fieldRef, TraitFn.trait, Expr.anyOblBad, h1, h2]

theorem derefCast_obl (r : IntTy) (h : ok .copySelf = true) (hd : ok .noDrop = true) :
    (Expr.cast (.deref vSelf) r).oblBad ok = false ∧ (Expr.cast (.deref vOther) r).oblBad ok = false := by
  simp [Expr.oblBad, Expr.nodeBad, vSelf, vOther, h, hd]

theorem cloneCast_obl (r : IntTy) (h : ok (.self_ .clone) = true) (hd : ok .noDrop = true) :
    (Expr.cast (.selfCall .clone [vSelf]) r).oblBad ok = false ∧ (Expr.cast (.selfCall .clone [vOther]) r).oblBad ok = false := by
  simp [Expr.oblBad, Expr.nodeBad, Expr.anyOblBad, TraitFn.trait, vSelf, vOther, h, hd]

/-- The discriminant comparison raises `Self: Copy` only when `Copy` is derived in the same attribute and
`Self: Clone` only when `Clone` is. -/
theorem ordBodyElse_obl (c : Cfg) (dw : DeriveWhere) (disc : Discriminant)
    (vs : List Data) (m : TraitFn)
    (hcopy : dw.contains .copy = true → ok .copySelf = true)
    (hclone : dw.contains .clone = true → ok (.self_ .clone) = true)
    (hnd : (dw.contains .copy = true ∨ dw.contains .clone = true) → ok .noDrop = true) :
    Stmt.anyOblBad ok (ordBodyElse c dw disc vs m).stmts = false ∧
      (ordBodyElse c dw disc vs m).tail.oblBad ok = false := by
  have hvalidate : Stmt.anyOblBad ok ((if vs.any (·.discriminant.isSome) = true then
      some ((buildDiscriminants vs).zipIdx.map fun (d, k) => Stmt.validateDef k d) else none).getD []) = false := by
    split
    · exact validateDefs_obl (ok := ok) vs
    · rfl
  cases disc with
  | single => simp [ordBodyElse, Stmt.anyOblBad, Expr.oblBad]
  | unit =>
    simp only [ordBodyElse]
    split
    · rename_i h
      have := derefCast_obl (ok := ok) .isize (hcopy h) (hnd (.inl h))
      exact ⟨hvalidate, castCmp_obl (ok := ok) m (fun e => .cast (.deref e) .isize) this.1 this.2⟩
    · split
      · rename_i h
        have := cloneCast_obl (ok := ok) .isize (hclone h) (hnd (.inr h))
        exact ⟨hvalidate, castCmp_obl (ok := ok) m (fun e => .cast (.selfCall .clone [e]) .isize) this.1 this.2⟩
      · exact discriminantComparison_obl (ok := ok) none _ vs m hvalidate
  | data => exact discriminantComparison_obl (ok := ok) none none vs m rfl
  | unitRepr r =>
    simp only [ordBodyElse]
    split
    · rename_i h
      have := derefCast_obl (ok := ok) r (hcopy h) (hnd (.inl h))
      exact ⟨rfl, castCmp_obl (ok := ok) m (fun e => .cast (.deref e) r) this.1 this.2⟩
    · split
      · rename_i h
        have := cloneCast_obl (ok := ok) r (hclone h) (hnd (.inr h))
        exact ⟨rfl, castCmp_obl (ok := ok) m (fun e => .cast (.selfCall .clone [e]) r) this.1 this.2⟩
      · have := discriminantComparison_obl (ok := ok) (some r) none vs m rfl
        split
        · exact this
        · simp [ptrCmp, Stmt.anyOblBad, Expr.oblBad, Expr.nodeBad, argsBad, Expr.fieldRef, Expr.anyOblBad, vSelf, vOther]
  | dataRepr r =>
    have := discriminantComparison_obl (ok := ok) (some r) none vs m rfl
    simp only [ordBodyElse]
    split
    · exact this
    · simp [ptrCmp, Stmt.anyOblBad, Expr.oblBad, Expr.nodeBad, argsBad, Expr.fieldRef, Expr.anyOblBad, vSelf, vOther]

theorem ordBodyEqual_obl (c : Cfg) (it : Item) (vs : List Data) (t : Trait)
    (arms : List Arm) (harms : Arm.anyOblBad ok arms = false) :
    ∀ be, ordBodyEqual c it vs t arms = some be → be.oblBad ok = false := by
  intro be hbe
  unfold ordBodyEqual at hbe
  split at hbe
  · cases hbe
  · split at hbe <;> cases hbe <;>
      simp [Expr.oblBad, Expr.nodeBad, Stmt.nodeBad, argsBad, Expr.fieldRef, TraitFn.trait, tupleSO, vSelf, vOther, Expr.anyOblBad, Arm.anyOblBad_append, harms, Arm.anyOblBad,
        equalExpr_obl (ok := ok), unreachableRest_obl (ok := ok) c]

theorem obl_ordSignature (c : Cfg) (it : Item) (dw : DeriveWhere) (t : Trait)
    (arms : List Arm) (harms : Arm.anyOblBad ok arms = false)
    (hcopy : dw.contains .copy = true → ok .copySelf = true)
    (hclone : dw.contains .clone = true → ok (.self_ .clone) = true)
    (hnd : (dw.contains .copy = true ∨ dw.contains .clone = true) → ok .noDrop = true) :
    (ordSignature c it dw t arms).oblBad ok = false := by
  have hsingle : (if it.isEmpty t = true then equalExpr t else Expr.match_ tupleSO arms).oblBad ok = false := by
    split
    · exact equalExpr_obl (ok := ok) t
    · simp [Expr.oblBad, Expr.nodeBad, Stmt.nodeBad, argsBad, Expr.fieldRef, TraitFn.trait, tupleSO, vSelf, vOther, Expr.anyOblBad, harms]
  unfold ordSignature
  split
  · rfl
  · cases it with
    | item d => exact hsingle
    | enum_ disc id inc vs =>
      simp only
      split
      · have hbe := ordBodyEqual_obl (ok := ok) c (.enum_ disc id inc vs) vs t arms harms
        unfold ordMulti
        simp only
        split
        · -- single comparable variant
          simp only [ordSingleComparable, Expr.oblBad, Expr.nodeBad, Stmt.nodeBad, argsBad, Expr.fieldRef, TraitFn.trait, matchesEither, vSelf, vOther, Bool.or_false,
            Bool.false_or]
          split
          · exact equalExpr_obl (ok := ok) t
          · cases hb : ordBodyEqual c (.enum_ disc id inc vs) vs t arms with
            | none => simpa using equalExpr_obl (ok := ok) t
            | some be => simpa using hbe be hb
        · split
          · -- nightly
            unfold ordNightly
            cases hb : ordBodyEqual c (.enum_ disc id inc vs) vs t arms with
            | none =>
              simp only
              apply toExpr_obl (ok := ok)
              · exact ordIncStmts_obl (ok := ok) vs
              · simp [Expr.oblBad, Expr.nodeBad, Stmt.nodeBad, argsBad, Expr.fieldRef, TraitFn.trait, Expr.anyOblBad, vSelf, vOther]
            | some be =>
              simp [Expr.oblBad, Expr.nodeBad, Stmt.nodeBad, argsBad, Expr.fieldRef, TraitFn.trait, Stmt.anyOblBad_append, ordIncStmts_obl (ok := ok), letDiscs, Stmt.anyOblBad,
                Stmt.oblBad, Expr.anyOblBad, vSelf, vOther, discsEqual, hbe be hb]
          · have helse := ordBodyElse_obl (ok := ok) c dw disc vs (ordFn t) hcopy hclone hnd
            unfold ordStable
            cases hb : ordBodyEqual c (.enum_ disc id inc vs) vs t arms with
            | none =>
              simp only
              apply toExpr_obl (ok := ok)
              · simp [Stmt.anyOblBad_append, ordIncStmts_obl (ok := ok), helse.1]
              · exact helse.2
            | some be =>
              have := toExpr_obl (ok := ok) _ helse.1 helse.2
              simp [Expr.oblBad, Expr.nodeBad, Stmt.nodeBad, argsBad, Expr.fieldRef, TraitFn.trait, Stmt.anyOblBad_append, ordIncStmts_obl (ok := ok), letDiscs, Stmt.anyOblBad,
                Stmt.oblBad, Expr.anyOblBad, vSelf, vOther, discsEqual, hbe be hb, this]
      · exact hsingle

theorem partialOrdBody_obl (dw : DeriveWhere) (k : Nat) (d : Data)
    (hok : ∀ t' : Trait, t' = .partialOrd ∨ t' = .ord → ∀ p ∈ d.iterFields t', ok (.field k p.1 t') = true) :
    Arm.anyOblBad ok (partialOrdBody dw k d) = false := by
  have := ordArmsFor_obl (ok := ok) .partialOrd dw k d hok
  simpa [ordArmsFor] using this

theorem ordArms_obl (k : Nat) (d : Data)
    (hok : ∀ t' : Trait, t' = .partialOrd ∨ t' = .ord → ∀ p ∈ d.iterFields t', ok (.field k p.1 t') = true) :
    Arm.anyOblBad ok (ordArms k d) = false := by
  have := ordArmsFor_obl (ok := ok) .ord ⟨[], []⟩ k d hok
  simpa [ordArmsFor] using this

theorem semiMap_obl {β} (l : List β) (f : β → Expr) (h : ∀ x ∈ l, (f x).oblBad ok = false) :
    Stmt.anyOblBad ok (l.map fun x => Stmt.semi (f x)) = false :=
  Stmt.anyOblBad_map _ _ (fun x hx => by simp [Stmt.oblBad, h x hx])

theorem cloneBody_obl (dw : DeriveWhere) (k : Nat) (d : Data) (hok : ∀ p ∈ d.iterFields .clone, ok (.field k p.1 .clone) = true) :
    Arm.anyOblBad ok (cloneBody dw k d) = false := by
  unfold cloneBody
  cases h : (dw.shortcut && dw.contains .copy)
  · simp only [Bool.false_eq_true, if_false]
    cases hs : d.shape <;> simp only [Arm.anyOblBad, Expr.oblBad, Expr.nodeBad, Stmt.nodeBad, argsBad, Expr.fieldRef, TraitFn.trait, Bool.or_false]
    · exact FieldInit.anyOblBad_map (d.iterFields .clone) (fun (p : Nat × Field) => p.1)
        (fun p => .call (.traitFn .clone) [.var (.selfField k p.1)])
        (fun p hp => by simp [Expr.oblBad, Expr.nodeBad, Stmt.nodeBad, argsBad, Expr.fieldRef, TraitFn.trait, Expr.anyOblBad, hok p hp])
    · exact Expr.anyOblBad_map (d.iterFields .clone)
        (fun (p : Nat × Field) => Expr.call (.traitFn .clone) [.var (.selfField k p.1)])
        (fun p hp => by simp [Expr.oblBad, Expr.nodeBad, Stmt.nodeBad, argsBad, Expr.fieldRef, TraitFn.trait, Expr.anyOblBad, hok p hp])
  · simp [Arm.anyOblBad]

theorem debugBody_obl (k : Nat) (d : Data) (hok : ∀ p ∈ d.iterFields .debug, ok (.field k p.1 .debug) = true) :
    Arm.anyOblBad ok (debugBody k d) = false := by
  unfold debugBody
  cases hs : d.shape <;> simp only [Arm.anyOblBad, Expr.oblBad, Expr.nodeBad, Stmt.nodeBad, argsBad, Expr.fieldRef, TraitFn.trait, Bool.or_false, List.singleton_append,
    Stmt.anyOblBad, Stmt.oblBad, Expr.anyOblBad, Bool.false_or]
  · rw [semiMap_obl (ok := ok) (d.iterFields .debug) (fun (p : Nat × Field) => Expr.call .dsField
      [.refMut (.var .builder), .litStr (.fieldName k p.1), .var (.selfField k p.1)])
      (fun p hp => by simp [Expr.oblBad, Expr.nodeBad, Stmt.nodeBad, argsBad, Expr.fieldRef, TraitFn.trait, Expr.anyOblBad, hok p hp])]
    cases d.anySkipTrait .debug <;> simp [Expr.nodeBad]
  · rw [semiMap_obl (ok := ok) (d.iterFields .debug) (fun (p : Nat × Field) => Expr.call .dtField
      [.refMut (.var .builder), .var (.selfField k p.1)])
      (fun p hp => by simp [Expr.oblBad, Expr.nodeBad, Stmt.nodeBad, argsBad, Expr.fieldRef, TraitFn.trait, Expr.anyOblBad, hok p hp])]

theorem hashBody_obl (k : Nat) (d : Data) (hok : ∀ p ∈ d.iterFields .hash, ok (.field k p.1 .hash) = true) :
    Arm.anyOblBad ok (hashBody k d) = false := by
  unfold hashBody
  have hdisc : Stmt.anyOblBad ok (if d.isVariant = true then
      [Stmt.semi (.call (.traitFn .hash) [.ref (.call .memDiscriminant [vSelf]), .var .state])] else []) = false := by
    split <;> simp [Stmt.anyOblBad, Stmt.oblBad, Expr.oblBad, Expr.nodeBad, Stmt.nodeBad, argsBad, Expr.fieldRef, TraitFn.trait, Expr.anyOblBad, vSelf]
  have hloop := semiMap_obl (ok := ok) (d.iterFields .hash)
    (fun (p : Nat × Field) => Expr.call (.traitFn .hash) [.var (.selfField k p.1), .var .state])
    (fun p hp => by simp [Expr.oblBad, Expr.nodeBad, Stmt.nodeBad, argsBad, Expr.fieldRef, TraitFn.trait, Expr.anyOblBad, hok p hp])
  cases hs : d.shape <;>
    simp only [Arm.anyOblBad, Expr.oblBad, Expr.nodeBad, Stmt.nodeBad, argsBad, Expr.fieldRef, TraitFn.trait, Bool.or_false, Stmt.anyOblBad_append, hdisc, Bool.false_or, hloop]

theorem defaultBody_obl (k : Nat) (d : Data) (hok : ∀ p ∈ d.iterFields .default, ok (.field k p.1 .default) = true) :
    Expr.anyOblBad ok (defaultBody k d) = false := by
  unfold defaultBody
  cases h : d.isDefault
  · simp [Expr.anyOblBad]
  · simp only [if_true]
    cases hs : d.shape <;> simp only [Expr.anyOblBad, Expr.oblBad, Expr.nodeBad, Stmt.nodeBad, argsBad, Expr.fieldRef, TraitFn.trait, Bool.or_false]
    · exact FieldInit.anyOblBad_map (d.iterFields .default) (fun (p : Nat × Field) => p.1)
        (fun p => .defaultCall k p.1) (fun p hp => by simp [Expr.oblBad, Expr.nodeBad, hok p hp])
    · exact Expr.anyOblBad_map (d.iterFields .default) (fun (p : Nat × Field) => Expr.defaultCall k p.1)
        (fun p hp => by simp [Expr.oblBad, Expr.nodeBad, hok p hp])

theorem Expr.anyOblBad_append (l1 l2 : List Expr) :
    Expr.anyOblBad ok (l1 ++ l2) = (Expr.anyOblBad ok l1 || Expr.anyOblBad ok l2) := by
  induction l1 with
  | nil => simp [Expr.anyOblBad]
  | cons a l ih => simp [Expr.anyOblBad, ih, Bool.or_assoc]

theorem Expr.anyOblBad_flatMap {β} (l : List β) (f : β → List Expr)
    (h : ∀ x ∈ l, Expr.anyOblBad ok (f x) = false) : Expr.anyOblBad ok (l.flatMap f) = false := by
  induction l with
  | nil => simp [Expr.anyOblBad]
  | cons a l ih =>
    simp only [List.flatMap_cons, Expr.anyOblBad_append, h a (by simp), Bool.false_or]
    exact ih (fun x hx => h x (by simp [hx]))


theorem zeroizeBody_obl (k : Nat) (d : Data) (hok : ∀ p ∈ d.iterFields .zeroize, ok (.field k p.1 .zeroize) = true) :
    Arm.anyOblBad ok (zeroizeBody k d) = false := by
  unfold zeroizeBody
  split
  · simp [Arm.anyOblBad, Expr.oblBad, Stmt.anyOblBad]
  · split
    · simp only [Arm.anyOblBad, Expr.oblBad, Bool.or_false]
      exact Stmt.anyOblBad_map _ _ (fun p hp => by
        obtain ⟨i, f⟩ := p
        have := hok (i, f) hp
        simp only at this
        split <;> simp [Stmt.oblBad, Expr.oblBad, Expr.anyOblBad, Expr.nodeBad, Stmt.nodeBad, argsBad, Expr.fieldRef, TraitFn.trait, this])
    · simp only [Arm.anyOblBad, Expr.oblBad, Bool.or_false]
      exact Stmt.anyOblBad_map _ _ (fun p hp => by
        obtain ⟨i, f⟩ := p
        have := hok (i, f) hp
        simp only at this
        split <;> simp [Stmt.oblBad, Expr.oblBad, Expr.anyOblBad, Expr.nodeBad, Stmt.nodeBad, argsBad, Expr.fieldRef, TraitFn.trait, this])
    · rfl

theorem zodArms_obl (k : Nat) (d : Data) (hok : ∀ p ∈ d.iterFields .zeroizeOnDrop, ok (.field k p.1 .zeroizeOnDrop) = true) :
    Arm.anyOblBad ok (zodArms k d) = false := by
  unfold zodArms
  split
  · simp [Arm.anyOblBad, Expr.oblBad, Stmt.anyOblBad]
  · split
    · simp only [Arm.anyOblBad, Expr.oblBad, Bool.or_false]
      exact Stmt.anyOblBad_map _ _ (fun p hp => by
        have := hok p hp
        simp [Stmt.oblBad, Expr.oblBad, Expr.nodeBad, Stmt.nodeBad, argsBad, Expr.fieldRef, TraitFn.trait, this])
    · simp only [Arm.anyOblBad, Expr.oblBad, Bool.or_false]
      exact Stmt.anyOblBad_map _ _ (fun p hp => by
        have := hok p hp
        simp [Stmt.oblBad, Expr.oblBad, Expr.nodeBad, Stmt.nodeBad, argsBad, Expr.fieldRef, TraitFn.trait, this])
    · rfl

theorem zodStmts_obl (d : Data) (hz : ok (.self_ .zeroize) = true) : Stmt.anyOblBad ok (zodStmts d) = false := by
  unfold zodStmts
  split
  · rfl
  · split <;> simp [Stmt.anyOblBad, Stmt.oblBad, Expr.oblBad, Expr.anyOblBad, Expr.nodeBad, TraitFn.trait, vSelf, hz]

/-- **Every trait obligation an expansion raises is one of the expected ones**: `ok` may be any predicate that allows
* `FieldType: t` for the fields `Data::iter_fields` yields for `t` (`t` the derived trait; `Ord`/`PartialOrd` may inline
  each other's arms),
* `Self: Copy` when `Copy` is derived in the same attribute (`*self`), and for unions (`__AssertCopy<Self>`),
* `Self: Clone` when `Clone` is derived in the same attribute (discriminant through `Clone::clone(self) as R`),
* `Self: Ord` when `PartialOrd` delegates to the `Ord` impl of the same attribute with only custom bounds,
* `Self: Zeroize` in the `Drop` impl without `zeroize-on-drop` (the documented requirement of that configuration),
* "`Self` has no `Drop` impl" in `PartialOrd` / `Ord` next to a `Copy` or `Clone` of the same attribute (the `as` cast of the
  discriminant shortcut; rustc refuses to cast an enum that implements `Drop`). -/
theorem obl_generateBody (c : Cfg) (it : Item) (dw : DeriveWhere) (t : Trait)
    (hok : ∀ x ∈ it.indexed, ∀ t' : Trait, (t' = t ∨ (t = .partialOrd ∧ t' = .ord) ∨ (t = .ord ∧ t' = .partialOrd)) →
      ∀ p ∈ x.2.iterFields t', ok (.field x.1 p.1 t') = true)
    (hcopy : dw.contains .copy = true → ok .copySelf = true)
    (hunion : isUnion it = true → ok .copySelf = true)
    (hclone : dw.contains .clone = true → ok (.self_ .clone) = true)
    (hord : (dw.shortcut && dw.contains .ord) = true → ok (.self_ .ord) = true)
    (hzero : ok (.self_ .zeroize) = true)
    (hnd : (t = .partialOrd ∨ t = .ord) → (dw.contains .copy = true ∨ dw.contains .clone = true) → ok .noDrop = true) :
    ∀ m ∈ (generateBody c it dw t).toList, m.body.oblBad ok = false := by
  intro m hm
  cases t <;> simp only [generateBody, Option.toList, List.mem_singleton, List.not_mem_nil] at hm
  case clone =>
    subst hm
    simp only [cloneSignature]
    split
    · rename_i h
      simp only [Bool.and_eq_true] at h
      simp [Expr.oblBad, Expr.nodeBad, vSelf, hcopy h.2]
    · split
      · rename_i hu
        simp [Expr.oblBad, Expr.nodeBad, Stmt.anyOblBad, Stmt.oblBad, Stmt.nodeBad, vSelf, hunion hu]
      · simp only [Expr.oblBad, Expr.nodeBad, vSelf, Bool.false_or]
        exact Arm.anyOblBad_flatMap _ _ (fun x hx => cloneBody_obl (ok := ok) dw x.1 x.2 (hok x hx _ (Or.inl rfl)))
  case debug =>
    subst hm
    simp only [Expr.oblBad, Expr.nodeBad, vSelf, Bool.false_or]
    exact Arm.anyOblBad_flatMap _ _ (fun x hx => debugBody_obl (ok := ok) x.1 x.2 (hok x hx _ (Or.inl rfl)))
  case default =>
    subst hm
    simp only [Expr.oblBad]
    exact Expr.anyOblBad_flatMap _ _ (fun x hx => defaultBody_obl (ok := ok) x.1 x.2 (hok x hx _ (Or.inl rfl)))
  case eq =>
    subst hm
    simp only [Expr.oblBad, Stmt.anyOblBad, Stmt.oblBad, Bool.false_or, Bool.or_false]
    exact Stmt.anyOblBad_flatMap _ _ (fun x hx => Stmt.anyOblBad_map _ _
      (fun (p : Nat × Field) hp => by simp [Stmt.oblBad, Stmt.nodeBad, hok x hx _ (Or.inl rfl) p hp]))
  case hash =>
    subst hm
    simp only [Expr.oblBad, Expr.nodeBad, vSelf, Bool.false_or]
    exact Arm.anyOblBad_flatMap _ _ (fun x hx => hashBody_obl (ok := ok) x.1 x.2 (hok x hx _ (Or.inl rfl)))
  case ord =>
    subst hm
    exact obl_ordSignature (ok := ok) c it dw .ord _
      (Arm.anyOblBad_flatMap _ _ (fun x hx => ordArms_obl (ok := ok) x.1 x.2 (fun t' ht' => by
        rcases ht' with rfl | rfl
        · exact hok x hx _ (Or.inr (Or.inr ⟨rfl, rfl⟩))
        · exact hok x hx _ (Or.inl rfl)))) hcopy hclone (hnd (.inr rfl))
  case partialEq =>
    subst hm
    exact obl_eq (ok := ok) c it (fun x hx => hok x hx _ (Or.inl rfl))
  case partialOrd =>
    subst hm
    simp only [partialOrdSignature]
    split
    · rename_i h
      simp [Expr.oblBad, Expr.nodeBad, Expr.anyOblBad, TraitFn.trait, vSelf, vOther, hord h]
    · exact obl_ordSignature (ok := ok) c it dw .partialOrd _
        (Arm.anyOblBad_flatMap _ _ (fun x hx => partialOrdBody_obl (ok := ok) dw x.1 x.2 (fun t' ht' => by
          rcases ht' with rfl | rfl
          · exact hok x hx _ (Or.inl rfl)
          · exact hok x hx _ (Or.inr (Or.inl ⟨rfl, rfl⟩))))) hcopy hclone (hnd (.inl rfl))
  case zeroize =>
    subst hm
    have harms : Arm.anyOblBad ok (it.indexed.flatMap fun (k, d) => zeroizeBody k d) = false :=
      Arm.anyOblBad_flatMap _ _ (fun x hx => zeroizeBody_obl (ok := ok) x.1 x.2 (hok x hx _ (Or.inl rfl)))
    simp only [zeroizeSignature]
    split
    · split <;> simp [Expr.oblBad, Stmt.anyOblBad, Stmt.oblBad, Expr.nodeBad, vSelf, harms]
    · simp [Expr.oblBad, Stmt.anyOblBad, Stmt.oblBad, Expr.nodeBad, vSelf, harms]
  case zeroizeOnDrop =>
    subst hm
    have harms : Arm.anyOblBad ok (it.indexed.flatMap fun (k, d) => zodArms k d) = false :=
      Arm.anyOblBad_flatMap _ _ (fun x hx => zodArms_obl (ok := ok) x.1 x.2 (hok x hx _ (Or.inl rfl)))
    have hstmts : Stmt.anyOblBad ok (it.variants.flatMap zodStmts) = false :=
      Stmt.anyOblBad_flatMap _ _ (fun d _ => zodStmts_obl (ok := ok) d hzero)
    have hgen : (if c.zod then Expr.block [.useAsserts] (.match_ vSelf (it.indexed.flatMap fun (k, d) => zodArms k d))
        else Expr.block (it.variants.flatMap zodStmts) .unit).oblBad ok = false := by
      split <;> simp [Expr.oblBad, Stmt.anyOblBad, Stmt.oblBad, Expr.nodeBad, Stmt.nodeBad, vSelf, harms, hstmts]
    simp only [zodSignature]
    split
    · split
      · simp [Expr.oblBad, Stmt.anyOblBad]
      · exact hgen
    · exact hgen

end DW
