import DW.Validate
import DW.Ast

/-!
# Code generation: the model of `generate_impl` and `trait_/*.rs`

Each definition names the Rust function it mirrors.  Generator panics
(`unreachable!`, `expect`) are collected in `genPanic` instead of threading an
error monad through the generators.
-/

namespace DW

/-- `DeriveWhere::only_custom_bounds`: the condition under which `Clone` and
`PartialOrd` delegate to `Copy` / `Ord` (every impl of the attribute then has
the same where-clause). -/
def DeriveWhere.shortcut (dw : DeriveWhere) : Bool :=
  dw.generics.all fun g => match g with
    | .custom _ => true
    | .noBound _ _ => false

/-- Variants with their positions. -/
def Item.indexed (it : Item) : List (Nat × Data) :=
  it.variants.zipIdx.map fun (d, k) => (k, d)

def vSelf : Expr := .var .self_
def vOther : Expr := .var .other
def tupleSO : Expr := .tuple [vSelf, vOther]

/-- `(self_pattern, other_pattern)`. -/
def pairPat (k : Nat) : Pat := .tuple [.ctor k .self_ false, .ctor k .other false]

/-! ## `trait_/common_ord.rs` -/

/-- `build_incomparable_pattern`. -/
def incomparablePattern (vs : List Data) : Option Pat :=
  let ps := (vs.zipIdx.filter (·.1.incomparable)).map fun (_, k) => Pat.ctorAny k
  if ps.isEmpty then none else some (.or ps)

def ordFn (t : Trait) : TraitFn := if t == .partialOrd then .partialCmp else .cmp

/-- `equal` of `build_ord_signature` / `build_ord_body`. -/
def equalExpr (t : Trait) : Expr :=
  if t == .partialOrd then .call .some_ [.equal] else .equal

def equalPat (t : Trait) : Pat :=
  if t == .partialOrd then .someEqual else .equal

/-- `build_ord_body`. -/
def ordBody (t : Trait) (k : Nat) (d : Data) : Expr :=
  (d.iterFields t).foldr (fun (i, _) body =>
    .match_ (.call (.traitFn (ordFn t)) [.var (.selfField k i), .var (.otherField k i)])
      [.mk (equalPat t) body true, .mk (.bind .move_ .cmp) (.var .cmp) true])
    (equalExpr t)

/-- State of the loop in `build_discriminants`:
`last_expression: Option<(Option<usize>, usize)>`. -/
abbrev DiscState := Option (Option Nat × Nat)

/-- `build_discriminants`, as a left fold carrying the list built so far. -/
def buildDiscriminantsGo : List Data → Nat → DiscState → List Expr → List Expr
  | [], _, _, acc => acc
  | v :: rest, k, st, acc =>
    match v.discriminant with
    | some _ => buildDiscriminantsGo rest (k + 1) (some (some acc.length, 0)) (acc ++ [.userDiscr k])
    | none =>
      match st with
      | some (some idx, counter) =>
        let e := Expr.binop .add (.paren (acc.getD idx .unit)) (.litInt (counter + 1))
        buildDiscriminantsGo rest (k + 1) (some (some idx, counter + 1)) (acc ++ [e])
      | some (none, counter) =>
        buildDiscriminantsGo rest (k + 1) (some (none, counter + 1)) (acc ++ [.litInt (counter + 1)])
      | none =>
        buildDiscriminantsGo rest (k + 1) (some (none, 0)) (acc ++ [.litInt 0])

def buildDiscriminants (vs : List Data) : List Expr :=
  buildDiscriminantsGo vs 0 none []

/-- A body fragment: statements followed by a tail expression. -/
structure Blk where
  stmts : List Stmt
  tail : Expr

def Blk.toExpr (b : Blk) : Expr :=
  match b.stmts with
  | [] => b.tail
  | _ => .block b.stmts b.tail

/-- The match arms of the nested `__discriminant` function. -/
def discArms (validate : Bool) (ds : List Expr) : List Arm :=
  let n := ds.length
  ds.zipIdx.map fun (d, k) =>
    .mk (.ctor k .self_ false) (if validate then .validateConst k d else d) (k + 1 != n)

/-- `__discriminant(x)`. -/
def discCall (body : Expr) (x : Var) : Expr := .discFnCall body (.var x)

/-- `build_discriminant_comparison`. -/
def discriminantComparison (repr : Option IntTy) (validate : Option (List Stmt))
    (ds : List Expr) (m : TraitFn) : Blk :=
  let body := Expr.match_ (.var .this) (discArms validate.isSome ds)
  { stmts := [.discFn (repr.getD .isize) (validate.getD []) body]
    tail := .call (.traitFn m) [.ref (discCall body .self_), .ref (discCall body .other)] }

/-- `*self as R` / `Clone::clone(self) as R` / pointer read, wrapped in the
method call. -/
def castCmp (m : TraitFn) (conv : Expr → Expr) : Expr :=
  .call (.traitFn m) [.ref (.paren (conv vSelf)), .ref (.paren (conv vOther))]

def ptrCmp (m : TraitFn) (r : IntTy) : Expr :=
  .callT (.traitFn m) [.ref (.unsafe_ (.ptrRead vSelf r)), .ref (.unsafe_ (.ptrRead vOther r))]

/-- The `body_else` of `build_ord_signature` (not nightly). -/
def ordBodyElse (c : Cfg) (dw : DeriveWhere) (disc : Discriminant) (vs : List Data)
    (m : TraitFn) : Blk :=
  match disc with
  | .single => ⟨[], .unit⟩   -- `unreachable!`, see `genPanic`
  | .unit =>
    let validate : Option (List Stmt) :=
      if vs.any (·.discriminant.isSome) then
        some ((buildDiscriminants vs).zipIdx.map fun (d, k) => Stmt.validateDef k d)
      else none
    if dw.contains .copy then
      ⟨validate.getD [], castCmp m fun e => .cast (.deref e) .isize⟩
    else if dw.contains .clone then
      ⟨validate.getD [], castCmp m fun e => .cast (.selfCall .clone [e]) .isize⟩
    else discriminantComparison none validate (buildDiscriminants vs) m
  | .data => discriminantComparison none none (buildDiscriminants vs) m
  | .unitRepr r =>
    if dw.contains .copy then ⟨[], castCmp m fun e => .cast (.deref e) r⟩
    else if dw.contains .clone then ⟨[], castCmp m fun e => .cast (.selfCall .clone [e]) r⟩
    else if c.safe then discriminantComparison (some r) none (buildDiscriminants vs) m
    else ⟨[], ptrCmp m r⟩
  | .dataRepr r =>
    if c.safe then discriminantComparison (some r) none (buildDiscriminants vs) m
    else ⟨[], ptrCmp m r⟩

/-- The rest arm body used when no variant is empty. -/
def unreachableRest (c : Cfg) : Expr :=
  if c.safe then .unreachable else .unsafe_ (.call .unreachableUnchecked [])

def matchesEither (p : Pat) : Expr :=
  .binop .or (.matches_ vSelf p) (.matches_ vOther p)

/-- `#(if matches!(self, #inc) || matches!(__other, #inc) { return None; })*`. -/
def ordIncStmts (vs : List Data) : List Stmt :=
  match incomparablePattern vs with
  | some p => [.ifRet (matchesEither p) .none_]
  | none => []

/-- `body_equal` of `build_ord_signature`. -/
def ordBodyEqual (c : Cfg) (item : Item) (vs : List Data) (t : Trait) (arms : List Arm) : Option Expr :=
  if item.isEmpty t then none
  else if vs.any (fun v => v.isEmpty t && !v.incomparable) then
    some (.match_ tupleSO (arms ++ [.mk .wild (equalExpr t) true]))
  else some (.match_ tupleSO (arms ++ [.mk .wild (unreachableRest c) true]))

/-- The branch of `build_ord_signature` for exactly one comparable variant. -/
def ordSingleComparable (t : Trait) (incP : Pat) (comparable : Data) (bodyEqual : Option Expr) : Expr :=
  .ifElse (matchesEither incP) .none_
    (if comparable.isEmpty t then equalExpr t else bodyEqual.getD (equalExpr t))

def letDiscs (f : Fn) : List Stmt :=
  [.let_ (.bind .move_ .selfDisc) (.call f [vSelf]), .let_ (.bind .move_ .otherDisc) (.call f [vOther])]

def discsEqual : Expr := .binop .eq (.var .selfDisc) (.var .otherDisc)

/-- The `nightly` branch of `build_ord_signature`. -/
def ordNightly (vs : List Data) (m : TraitFn) (bodyEqual : Option Expr) : Expr :=
  match bodyEqual with
  | some be =>
    .block (ordIncStmts vs ++ letDiscs .discriminantValue)
      (.ifElse discsEqual be (.call (.traitFn m) [.ref (.var .selfDisc), .ref (.var .otherDisc)]))
  | none =>
    (Blk.mk (ordIncStmts vs) (.callT (.traitFn m)
      [.ref (.call .discriminantValue [vSelf]), .ref (.call .discriminantValue [vOther])])).toExpr

/-- The non-`nightly` branch of `build_ord_signature`. -/
def ordStable (vs : List Data) (bodyElse : Blk) (bodyEqual : Option Expr) : Expr :=
  match bodyEqual with
  | some be =>
    .block (ordIncStmts vs ++ letDiscs .memDiscriminant) (.ifElse discsEqual be bodyElse.toExpr)
  | none => (Blk.mk (ordIncStmts vs ++ bodyElse.stmts) bodyElse.tail).toExpr

/-- The multi-variant branch of `build_ord_signature`. -/
def ordMulti (c : Cfg) (item : Item) (dw : DeriveWhere) (t : Trait) (arms : List Arm)
    (disc : Discriminant) (vs : List Data) : Expr :=
  let bodyEqual := ordBodyEqual c item vs t arms
  match vs.filter (!·.incomparable) with
  | [comparable] =>
    -- `expect`: cannot fail, a list with one comparable variant among several has an incomparable one
    ordSingleComparable t ((incomparablePattern vs).getD .wild) comparable bodyEqual
  | _ =>
    if c.nightly then ordNightly vs (ordFn t) bodyEqual
    else ordStable vs (ordBodyElse c dw disc vs (ordFn t)) bodyEqual

/-- `build_ord_signature`. `arms` is the concatenation of the `build_body`
results. -/
def ordSignature (c : Cfg) (item : Item) (dw : DeriveWhere) (t : Trait) (arms : List Arm) : Expr :=
  if item.isIncomparable then Expr.none_
  else match item with
  | .enum_ disc _ _ vs =>
    if vs.length > 1 then ordMulti c item dw t arms disc vs
    else if item.isEmpty t then equalExpr t
    else .match_ tupleSO arms
  | .item _ =>
    if item.isEmpty t then equalExpr t
    else .match_ tupleSO arms

/-! ## `trait_/partial_eq.rs` -/

/-- The `true && eq(..) && ..` chain. -/
def eqChain (k : Nat) (fs : List (Nat × Field)) : Expr :=
  fs.foldl (fun acc (i, _) =>
    .binop .and acc (.call (.traitFn .eq) [.var (.selfField k i), .var (.otherField k i)]))
    (.litBool true)

/-- `PartialEq::build_body`. -/
def partialEqBody (k : Nat) (d : Data) : List Arm :=
  if d.isEmpty .partialEq || d.incomparable then []
  else match d.shape with
    | .named | .tuple => [.mk (pairPat k) (eqChain k (d.iterFields .partialEq)) true]
    | _ => []

/-- `if disc(self) == disc(other)`. -/
def discEq : Expr :=
  .binop .eq (.call .memDiscriminant [vSelf]) (.call .memDiscriminant [vOther])

/-- `#((#incomparable, ..) => false,)*`. -/
def eqIncArms (vs : List Data) : List Arm :=
  match incomparablePattern vs with
  | some p => [.mk (.tuple [p, .rest]) (.litBool false) true]
  | none => []

/-- `#(if ::core::matches!(self, #incomparable) { return false; })*`. -/
def eqIncStmts (vs : List Data) : List Stmt :=
  match incomparablePattern vs with
  | some p => [.ifRet (.matches_ vSelf p) (.litBool false)]
  | none => []

/-- `PartialEq::build_signature`, the `body`. -/
def partialEqSignature (c : Cfg) (item : Item) (arms : List Arm) : Expr :=
  if item.isIncomparable then .litBool false
  else
    let single := if item.isEmpty .partialEq then Expr.litBool true else .match_ tupleSO arms
    match item with
    | .enum_ _ _ _ vs =>
      if vs.length > 1 then
        if !item.isEmpty .partialEq then
          let rest :=
            if vs.any (fun v => v.isEmpty .partialEq && !v.incomparable) then Expr.litBool true
            else unreachableRest c
          .ifElse discEq (.match_ tupleSO (arms ++ eqIncArms vs ++ [.mk .wild rest true])) (.litBool false)
        else
          .ifElse discEq (Blk.mk (eqIncStmts vs) (.litBool true)).toExpr (.litBool false)
      else single
    | .item _ => single

/-! ## `trait_/partial_ord.rs`, `trait_/ord.rs` -/

/-- `PartialOrd::build_body`. -/
def partialOrdBody (dw : DeriveWhere) (k : Nat) (d : Data) : List Arm :=
  if d.isEmpty .partialOrd || d.incomparable || (dw.shortcut && dw.contains .ord) then []
  else match d.shape with
    | .named | .tuple => [.mk (pairPat k) (ordBody .partialOrd k d) true]
    | _ => []

/-- `Ord::build_body`. -/
def ordArms (k : Nat) (d : Data) : List Arm :=
  if d.isEmpty .ord then []
  else match d.shape with
    | .named | .tuple => [.mk (pairPat k) (ordBody .ord k d) true]
    | _ => []

/-- `PartialOrd::build_signature`, the `body`. -/
def partialOrdSignature (c : Cfg) (item : Item) (dw : DeriveWhere) (arms : List Arm) : Expr :=
  if dw.shortcut && dw.contains .ord then .call .some_ [.selfCall .cmp [vSelf, vOther]]
  else ordSignature c item dw .partialOrd arms

/-! ## `trait_/clone.rs` -/

def isUnion (item : Item) : Bool :=
  match item with
  | .item d => d.shape == .union
  | _ => false

/-- `Clone::build_body`. -/
def cloneBody (dw : DeriveWhere) (k : Nat) (d : Data) : List Arm :=
  if dw.shortcut && dw.contains .copy then []
  else match d.shape with
    | .named =>
      [.mk (.ctor k .self_ false)
        (.structLit k ((d.iterFields .clone).map fun (i, _) =>
          .mk i (.call (.traitFn .clone) [.var (.selfField k i)]))) true]
    | .tuple =>
      [.mk (.ctor k .self_ false)
        (.call (.ctor k) ((d.iterFields .clone).map fun (i, _) =>
          .call (.traitFn .clone) [.var (.selfField k i)])) true]
    | .unit => [.mk (.ctor k .self_ false) (.unitCtor k) true]
    | .union => []

/-- `Clone::build_signature`, the fn body. -/
def cloneSignature (item : Item) (dw : DeriveWhere) (arms : List Arm) : Expr :=
  if dw.shortcut && dw.contains .copy then .deref vSelf
  else if isUnion item then .block [.structAssertCopy, .assertCopySelf] (.deref vSelf)
  else .match_ vSelf arms

/-! ## `trait_/debug.rs` -/

/-- `Member: Display` (un-raws identifiers). -/
def Member.display : Member → String
  | .named i => i.name
  | .unnamed n => toString n

/-- Text of the string literals in the expansion: `data.ident.unraw().to_string()`
and `member.to_string()`. -/
def Item.strText (it : Item) : StrLit → String
  | .dataName k => ((it.variants.getD k default).ident).name
  | .fieldName k i => (((it.variants.getD k default).fields.getD i default).member).display

/-- `Debug::build_body`. -/
def debugBody (k : Nat) (d : Data) : List Arm :=
  let fs := d.iterFields .debug
  match d.shape with
  | .named =>
    [.mk (.ctor k .self_ false)
      (.block
        ([.let_ (.bind .mut_ .builder) (.call .debugStruct [.var .f, .litStr (.dataName k)])] ++
          fs.map fun (i, _) => .semi (.call .dsField
            [.refMut (.var .builder), .litStr (.fieldName k i), .var (.selfField k i)]))
        (.call (if d.anySkipTrait .debug then .dsFinishNonExhaustive else .dsFinish)
          [.refMut (.var .builder)])) false]
  | .tuple =>
    [.mk (.ctor k .self_ false)
      (.block
        ([.let_ (.bind .mut_ .builder) (.call .debugTuple [.var .f, .litStr (.dataName k)])] ++
          fs.map fun (i, _) => .semi (.call .dtField [.refMut (.var .builder), .var (.selfField k i)]))
        (.call .dtFinish [.refMut (.var .builder)])) false]
  | .unit => [.mk (.ctor k .self_ false) (.call .writeStr [.var .f, .litStr (.dataName k)]) true]
  | .union => []   -- `unreachable!`, see `genPanic`

/-! ## `trait_/default.rs` -/

/-- `Default::build_body`. -/
def defaultBody (k : Nat) (d : Data) : List Expr :=
  if d.isDefault then
    match d.shape with
    | .named =>
      [.structLit k ((d.iterFields .default).map fun (i, _) => .mk i (.defaultCall k i))]
    | .tuple =>
      [.call (.ctor k) ((d.iterFields .default).map fun (i, _) => .defaultCall k i)]
    | .unit => [.unitCtor k]
    | .union => []   -- `unreachable!`, see `genPanic`
  else []

/-! ## `trait_/eq.rs` -/

/-- `Eq::build_body`. -/
def eqBody (k : Nat) (d : Data) : List Stmt :=
  (d.iterFields .eq).map fun (i, _) => .assertEq k i

/-! ## `trait_/hash.rs` -/

/-- `Hash::build_body`. -/
def hashBody (k : Nat) (d : Data) : List Arm :=
  let disc : List Stmt :=
    if d.isVariant then
      [.semi (.call (.traitFn .hash) [.ref (.call .memDiscriminant [vSelf]), .var .state])]
    else []
  match d.shape with
  | .named | .tuple =>
    [.mk (.ctor k .self_ false)
      (.block (disc ++ (d.iterFields .hash).map fun (i, _) =>
        .semi (.call (.traitFn .hash) [.var (.selfField k i), .var .state])) .unit) false]
  | .unit => [.mk (.ctor k .self_ false) (.block disc .unit) false]
  | .union => []   -- `unreachable!`, see `genPanic`

/-! ## `trait_/zeroize.rs`, `trait_/zeroize_on_drop.rs` -/

/-- `Zeroize::build_body`. -/
def zeroizeBody (k : Nat) (d : Data) : List Arm :=
  if d.isEmpty .zeroize then [.mk (.ctor k .self_ false) (.block [] .unit) false]
  else match d.shape with
    | .named | .tuple =>
      [.mk (.ctor k .self_ true)
        (.block ((d.iterFields .zeroize).map fun (i, f) =>
          if f.fqs then .semi (.call (.traitFn .zeroize) [.var (.selfField k i)])
          else .semi (.methodCall (.var (.selfField k i)) .zeroize)) .unit) false]
    | _ => []

/-- `Zeroize::build_signature`, the fn body. -/
def zeroizeSignature (item : Item) (arms : List Arm) : Expr :=
  match item with
  | .item d => if d.isEmpty .zeroize then .block [] .unit
               else .block [.useTrait] (.match_ vSelf arms)
  | _ => .block [.useTrait] (.match_ vSelf arms)

/-- `ZeroizeOnDrop::build_body` with `zeroize-on-drop`. -/
def zodArms (k : Nat) (d : Data) : List Arm :=
  if d.isEmpty .zeroizeOnDrop then [.mk (.ctor k .self_ false) (.block [] .unit) false]
  else match d.shape with
    | .named | .tuple =>
      [.mk (.ctor k .self_ true)
        (.block ((d.iterFields .zeroizeOnDrop).map fun (i, _) =>
          .semi (.methodCall (.var (.selfField k i)) .zeroizeOrOnDrop)) .unit) false]
    | _ => []

/-- `ZeroizeOnDrop::build_body` without `zeroize-on-drop`. -/
def zodStmts (d : Data) : List Stmt :=
  if d.isEmpty .zeroizeOnDrop then []
  else match d.shape with
    | .named | .tuple => [.semi (.selfCall .zeroize [vSelf])]
    | _ => []

/-- `ZeroizeOnDrop::build_signature`, the fn body. -/
def zodSignature (c : Cfg) (item : Item) : Expr :=
  let general :=
    if c.zod then Expr.block [.useAsserts] (.match_ vSelf (item.indexed.flatMap fun (k, d) => zodArms k d))
    else .block (item.variants.flatMap zodStmts) .unit
  match item with
  | .item d => if d.isEmpty .zeroizeOnDrop then .block [] .unit else general
  | _ => general

/-! ## `lib.rs: generate_body`, `generate_impl`; `DeriveWhere::where_clause` -/

/-- `generate_body`: the fn item of the impl (`none` for `Copy`). -/
def generateBody (c : Cfg) (item : Item) (dw : DeriveWhere) (t : Trait) : Option Method' :=
  let ix := item.indexed
  match t with
  | .clone => some ⟨.clone, true, cloneSignature item dw (ix.flatMap fun (k, d) => cloneBody dw k d)⟩
  | .copy => none
  | .debug => some ⟨.fmt, false, .match_ vSelf (ix.flatMap fun (k, d) => debugBody k d)⟩
  | .default => some ⟨.default, false, .seq (ix.flatMap fun (k, d) => defaultBody k d)⟩
  | .eq => some ⟨.assertEq, true, .block (.structAssertEq :: ix.flatMap fun (k, d) => eqBody k d) .unit⟩
  | .hash => some ⟨.hash, false, .match_ vSelf (ix.flatMap fun (k, d) => hashBody k d)⟩
  | .ord => some ⟨.cmp, true, ordSignature c item dw .ord (ix.flatMap fun (k, d) => ordArms k d)⟩
  | .partialEq =>
    some ⟨.eq, true, partialEqSignature c item (ix.flatMap fun (k, d) => partialEqBody k d)⟩
  | .partialOrd =>
    some ⟨.partialCmp, true,
      partialOrdSignature c item dw (ix.flatMap fun (k, d) => partialOrdBody dw k d)⟩
  | .zeroize => some ⟨.zeroize, false, zeroizeSignature item (ix.flatMap fun (k, d) => zeroizeBody k d)⟩
  | .zeroizeOnDrop => some ⟨.drop, false, zodSignature c item⟩

/-- `DeriveWhere::where_clause` on top of the item's own where-clause. -/
def implPreds (g : Generics) (item : Item) (dw : DeriveWhere) (t : Trait) : List WherePred :=
  g.preds.map .item ++ dw.generics.map fun gen => match gen with
    | .custom toks => .custom toks
    | .noBound toks _ => .bound toks (t == .clone && isUnion item)

/-- `generate_impl`: one or (for `ZeroizeOnDrop` with `zeroize-on-drop`) two
impl blocks. -/
def generateImpl (c : Cfg) (inp : Input) (dw : DeriveWhere) (t : DeriveTrait) : List Impl :=
  let preds := implPreds inp.generics inp.item dw t.trait
  let trailing := inp.generics.predsTrailing && dw.generics.isEmpty
  let main : Impl :=
    { trait := t, isDrop := t.trait == .zeroizeOnDrop, preds := preds, whereTrailing := trailing
      methods := (generateBody c inp.item dw t.trait).toList }
  if t.trait == .zeroizeOnDrop && c.zod then
    [main, { trait := t, isDrop := false, preds := preds, whereTrailing := trailing, methods := [] }]
  else [main]

/-- All impls of an expansion, with the trait each belongs to
(`derive_where_actual`). -/
def expandInput (c : Cfg) (inp : Input) : List (DeriveTrait × List Impl) :=
  inp.deriveWheres.flatMap fun dw => dw.traits.map fun t => (t, generateImpl c inp dw t)

/-- Would the Rust generator hit one of its `unreachable!` sites?  (The
`expect("there should be > 1 variants")` in `build_ord_signature` cannot fail
for any `Item`: a list with exactly one comparable variant among several has an
incomparable one.) -/
def genPanic (c : Cfg) (item : Item) (dw : DeriveWhere) (t : Trait) : Option String :=
  let unionPanic := "unexpected trait for union"
  let union := isUnion item
  let d := item.variants.headD default
  match t with
  | .clone | .copy | .eq => none
  | .debug | .default | .hash => if union then some unionPanic else none
  | .partialEq =>
    if union && !(d.isEmpty t || d.incomparable) then some unionPanic else none
  | .partialOrd =>
    if union && !(d.isEmpty t || d.incomparable || (dw.shortcut && dw.contains .ord)) then
      some unionPanic
    else if dw.shortcut && dw.contains .ord then none
    else ordSinglePanic
  | .ord => if union && !d.isEmpty t then some unionPanic else ordSinglePanic
  | .zeroize | .zeroizeOnDrop => if union && !d.isEmpty t then some unionPanic else none
where
  ordSinglePanic : Option String :=
    match item with
    | .enum_ .single _ _ vs =>
      if !c.nightly && !item.isIncomparable && vs.length > 1
          && (vs.filter (!·.incomparable)).length != 1 then
        some "we should only generate this code with multiple variants"
      else none
    | _ => none

/-- `derive_where_actual` after parsing: validation, then generation. -/
def deriveWhere (c : Cfg) (raw : RawItem) : R (Input × List (DeriveTrait × List Impl)) := do
  let inp ← Input.fromInput c raw
  match inp.deriveWheres.findSome? fun dw =>
      dw.traits.findSome? fun t => genPanic c inp.item dw t.trait with
  | some site => .error (.panic site)
  | none => .ok (inp, expandInput c inp)

end DW
