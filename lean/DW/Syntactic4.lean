import DW.Gen

/-! # Trait obligations raised by the emitted fragment (C02)

Every call of the expansion that rustc has to justify by a trait bound raises an *obligation*:
`Trait::method(&field)` needs `FieldType: Trait`, `Default::default()` for a field needs `FieldType: Default`,
`field.zeroize()` needs `FieldType: Zeroize`, `let _: __AssertEq<FieldType>;` needs `FieldType: Eq`, a builder call
`.field(name, &field)` needs `FieldType: Debug`; `Trait::method(self)` on a whole value needs `Self: Trait` (the
sibling impl), `*self` used as a value and `let _: __AssertCopy<Self>;` need `Self: Copy`.  Calls on the integer
discriminants, on `::core` items and on the formatter raise nothing the user could fail to provide.

`oblBad ok e` = the expression raises an obligation `o` with `ok o = false`. -/

namespace DW

inductive Oblig where
  /-- `FieldType(k, i): tr` -/
  | field (k i : Nat) (tr : Trait)
  /-- `Self: tr` -/
  | self_ (tr : Trait)
  /-- `Self: Copy` -/
  | copySelf
  /-- `Self` does **not** implement `Drop`: rustc refuses `as` casts of a field-less enum that has a `Drop` impl
  ("cannot cast enum `E` into integer `isize` because it implements `Drop`") -/
  | noDrop
  deriving DecidableEq, Repr

/-- The trait a qualified method belongs to. -/
def TraitFn.trait : TraitFn → Trait
  | .eq => .partialEq | .partialCmp => .partialOrd | .cmp => .ord | .hash => .hash | .clone => .clone
  | .zeroize => .zeroize

/-- The field an argument expression denotes, through references. -/
def Expr.fieldRef : Expr → Option (Nat × Nat)
  | .var (.selfField k i) | .var (.otherField k i) => some (k, i)
  | .ref (.var (.selfField k i)) | .ref (.var (.otherField k i)) => some (k, i)
  | .refMut (.var (.selfField k i)) | .refMut (.var (.otherField k i)) => some (k, i)
  | _ => none

/-- Some argument is a field whose type is not allowed to be asked for `tr`. -/
def argsBad (ok : Oblig → Bool) (tr : Trait) : List Expr → Bool
  | [] => false
  | e :: es => (match e.fieldRef with
      | some (k, i) => !ok (.field k i tr)
      | none => false) || argsBad ok tr es

/-- The obligation raised by this node itself (not by its children). -/
def Expr.nodeBad (ok : Oblig → Bool) : Expr → Bool
  | .defaultCall k i => !ok (.field k i .default)
  | .call (.traitFn f) args | .callT (.traitFn f) args => argsBad ok f.trait args
  | .call .dsField args | .call .dtField args => argsBad ok .debug args
  | .selfCall f _ => !ok (.self_ f.trait)
  | .methodCall r .zeroize => argsBad ok .zeroize [r]
  | .methodCall r .zeroizeOrOnDrop => argsBad ok .zeroizeOnDrop [r]
  | .deref (.var .self_) | .deref (.var .other) => !ok .copySelf
  -- an `as` cast of a value of the item type (the `Copy` / `Clone` shortcut of the discriminant comparison)
  | .cast (.deref (.var .self_)) _ | .cast (.deref (.var .other)) _ | .cast (.selfCall .clone _) _ => !ok .noDrop
  | _ => false

def Stmt.nodeBad (ok : Oblig → Bool) : Stmt → Bool
  | .assertEq k i => !ok (.field k i .eq)
  | .assertCopySelf => !ok .copySelf
  | _ => false

mutual
def Expr.oblBad (ok : Oblig → Bool) : Expr → Bool
  | .methodCall r m => Expr.nodeBad ok (.methodCall r m) || r.oblBad ok
  | .unsafe_ e => e.oblBad ok
  | .call f args => Expr.nodeBad ok (.call f args) || Expr.anyOblBad ok args
  | .callT f args => Expr.nodeBad ok (.callT f args) || Expr.anyOblBad ok args
  | .selfCall f args => Expr.nodeBad ok (.selfCall f args) || Expr.anyOblBad ok args
  | .tuple args | .seq args => Expr.anyOblBad ok args
  | .discFnCall body arg => body.oblBad ok || arg.oblBad ok
  | .validateConst _ body => body.oblBad ok
  | .deref e => Expr.nodeBad ok (.deref e) || e.oblBad ok
  | .cast e t => Expr.nodeBad ok (.cast e t) || e.oblBad ok
  | .ref e | .refMut e | .paren e | .ptrRead e _ | .ret e
  | .matches_ e _ => e.oblBad ok
  | .binop _ a b => a.oblBad ok || b.oblBad ok
  | .ifElse c t e => c.oblBad ok || t.oblBad ok || e.oblBad ok
  | .match_ s arms => s.oblBad ok || Arm.anyOblBad ok arms
  | .block stmts tail => Stmt.anyOblBad ok stmts || tail.oblBad ok
  | .structLit _ fields => FieldInit.anyOblBad ok fields
  | .defaultCall k i => Expr.nodeBad ok (.defaultCall k i)
  | _ => false
def Expr.anyOblBad (ok : Oblig → Bool) : List Expr → Bool
  | [] => false
  | e :: es => e.oblBad ok || Expr.anyOblBad ok es
def Arm.anyOblBad (ok : Oblig → Bool) : List Arm → Bool
  | [] => false
  | .mk _ e _ :: arms => e.oblBad ok || Arm.anyOblBad ok arms
def FieldInit.anyOblBad (ok : Oblig → Bool) : List FieldInit → Bool
  | [] => false
  | .mk _ e :: fs => e.oblBad ok || FieldInit.anyOblBad ok fs
def Stmt.oblBad (ok : Oblig → Bool) : Stmt → Bool
  | .assertEq k i => Stmt.nodeBad ok (.assertEq k i)
  | .assertCopySelf => Stmt.nodeBad ok .assertCopySelf
  | .let_ _ e | .semi e | .validateDef _ e => e.oblBad ok
  | .ifRet c r => c.oblBad ok || r.oblBad ok
  | .discFn _ validate body => Stmt.anyOblBad ok validate || body.oblBad ok
  | _ => false
def Stmt.anyOblBad (ok : Oblig → Bool) : List Stmt → Bool
  | [] => false
  | s :: ss => s.oblBad ok || Stmt.anyOblBad ok ss
end

end DW
