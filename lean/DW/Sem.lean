import DW.Ast

/-!
# Semantics of the emitted fragment

A total, structurally recursive evaluator for `Expr`.  Field values are
abstract (`α`) and the trait impls of field types are arbitrary functions
(`FieldOps`).  Effects (hashing, formatting, cloning, zeroizing) are recorded
in a log of `Event`s.  Undefined behaviour, panics and ill-typed programs are
explicit outcomes.  The Rust rules that are encoded here are listed in
DESIGN.md §4.2; they are validated against rustc by correspondence B.
-/

namespace DW

/-- The trait impls of the field types. -/
structure FieldOps (α : Type) where
  eq : α → α → Bool
  pcmp : α → α → Option Ordering
  cmp : α → α → Ordering
  clone : α → α
  /-- `Default::default()` of the type of field `i` of variant `k` -/
  default : Nat → Nat → α

inductive ZVia where
  | method | fqs | orOnDrop
  deriving DecidableEq, Repr

/-- Observable effects of derived methods. -/
inductive Event (α : Type) where
  /-- `Hash::hash(&discriminant(self), state)` on variant `k` -/
  | hashDisc (k : Nat)
  /-- `Hash::hash(field, state)` -/
  | hashField (a : α)
  /-- `Clone::clone(field)` -/
  | cloneField (a : α)
  /-- `Default::default()` for field `i` of variant `k` -/
  | defaultField (k i : Nat)
  | debugStruct (s : StrLit) | debugTuple (s : StrLit) | writeStr (s : StrLit)
  /-- `DebugStruct::field(name, value)` / `DebugTuple::field(value)` -/
  | fmtField (name : Option StrLit) (a : α)
  | finish | finishNonExhaustive
  /-- field `i` of the live variant is zeroized -/
  | zeroize (i : Nat) (via : ZVia)
  /-- a trait method of the item type itself was called on the whole value -/
  | selfCall (f : TraitFn)
  deriving Repr

inductive Val (α : Type) where
  | leaf (a : α)
  /-- a `ref mut` binding of field `i` of `self` -/
  | place (i : Nat) (v : Val α)
  | adt (k : Nat) (fs : List (Val α))
  | tuple (vs : List (Val α))
  | bool (b : Bool)
  | ord (o : Ordering)
  | optOrd (o : Option Ordering)
  | int (n : Int)
  /-- `::core::mem::Discriminant<_>` of variant `k` -/
  | disc (k : Nat)
  | str (s : StrLit)
  | unit
  /-- formatter, hasher state, builder -/
  | opaque
  deriving Repr, Inhabited

abbrev Log (α : Type) := List (Event α)
abbrev Env (α : Type) := List (Var × Val α)

/-- What rustc knows about the item's type (independent of the macro). -/
structure TypeInfo where
  /-- the integer type of `#[repr(<int>)]` -/
  reprInt : Option IntTy
  /-- discriminant value of variant `k` -/
  discr : Nat → Int
  /-- no variant has fields: `as` casts are allowed -/
  fieldless : Bool

/-- Explicit discriminant expression values, `userDiscr k`. -/
abbrev DiscrTable := Nat → Option Int

/-- Sibling impls of the same type (`Clone::clone(self)`, `Ord::cmp(self, other)`,
`Zeroize::zeroize(self)`), as semantic functions. -/
abbrev ImplTable (α : Type) := TraitFn → List (Val α) → Option (Val α)

structure SemCtx (α : Type) where
  ops : FieldOps α
  ti : TypeInfo
  userDiscr : DiscrTable
  impls : ImplTable α

inductive Out (α β : Type) where
  | ok (b : β)
  /-- early `return` -/
  | ret (v : Val α) (log : Log α)
  /-- undefined behaviour -/
  | ub
  | panic
  /-- ill-typed, unbound or non-exhaustive: rustc would have rejected the program -/
  | stuck
  deriving Inhabited

abbrev Res (α : Type) := Out α (Val α × Log α)

def Out.bind {α β γ} (o : Out α β) (f : β → Out α γ) : Out α γ :=
  match o with
  | .ok b => f b
  | .ret v l => .ret v l
  | .ub => .ub
  | .panic => .panic
  | .stuck => .stuck

def fieldVar (s : Side) (k i : Nat) : Var :=
  match s with
  | .self_ => .selfField k i
  | .other => .otherField k i

/-- Bindings of a destructuring pattern of variant `k`. -/
def ctorBinds {α} (s : Side) (mut_ : Bool) (k : Nat) (fs : List (Val α)) : Env α :=
  fs.zipIdx.map fun (v, i) => (fieldVar s k i, if mut_ then .place i v else v)

mutual
def matchPat {α} : Pat → Val α → Option (Env α)
  | .wild, _ => some []
  | .rest, _ => some []
  | .bind _ x, v => some [(x, v)]
  | .ctor k s mut_, .adt k' fs => if k = k' then some (ctorBinds s mut_ k fs) else none
  | .ctor _ _ _, _ => none
  | .ctorAny k, .adt k' _ => if k = k' then some [] else none
  | .ctorAny _, _ => none
  | .equal, .ord .eq => some []
  | .equal, _ => none
  | .someEqual, .optOrd (some .eq) => some []
  | .someEqual, _ => none
  | .tuple ps, .tuple vs => matchPats ps vs
  | .tuple _, _ => none
  | .or ps, v => matchAny ps v
def matchPats {α} : List Pat → List (Val α) → Option (Env α)
  | [], [] => some []
  | [.rest], _ => some []
  | p :: ps, v :: vs =>
    match matchPat p v, matchPats ps vs with
    | some e1, some e2 => some (e1 ++ e2)
    | _, _ => none
  | _, _ => none
def matchAny {α} : List Pat → Val α → Option (Env α)
  | [], _ => none
  | p :: ps, v =>
    match matchPat p v with
    | some e => some e
    | none => matchAny ps v
end

def cmpInt (a b : Int) : Ordering := compare a b

/-- Calls of library functions on evaluated arguments. -/
def applyFn {α} (cx : SemCtx α) (f : Fn) (args : List (Val α)) (log : Log α) : Res α :=
  match f, args with
  | .traitFn .eq, [.leaf a, .leaf b] => .ok (.bool (cx.ops.eq a b), log)
  | .traitFn .partialCmp, [.leaf a, .leaf b] => .ok (.optOrd (cx.ops.pcmp a b), log)
  | .traitFn .partialCmp, [.int a, .int b] => .ok (.optOrd (some (cmpInt a b)), log)
  | .traitFn .cmp, [.leaf a, .leaf b] => .ok (.ord (cx.ops.cmp a b), log)
  | .traitFn .cmp, [.int a, .int b] => .ok (.ord (cmpInt a b), log)
  | .traitFn .hash, [.leaf a, .opaque] => .ok (.unit, log ++ [.hashField a])
  | .traitFn .hash, [.disc k, .opaque] => .ok (.unit, log ++ [.hashDisc k])
  | .traitFn .clone, [.leaf a] => .ok (.leaf (cx.ops.clone a), log ++ [.cloneField a])
  | .traitFn .zeroize, [.place i (.leaf _)] => .ok (.unit, log ++ [.zeroize i .fqs])
  | .memDiscriminant, [.adt k _] => .ok (.disc k, log)
  | .discriminantValue, [.adt k _] => .ok (.int (cx.ti.discr k), log)
  | .some_, [.ord o] => .ok (.optOrd (some o), log)
  | .unreachableUnchecked, [] => .ub
  | .ctor k, vs => .ok (.adt k vs, log)
  | .debugStruct, [.opaque, .str s] => .ok (.opaque, log ++ [.debugStruct s])
  | .debugTuple, [.opaque, .str s] => .ok (.opaque, log ++ [.debugTuple s])
  | .writeStr, [.opaque, .str s] => .ok (.unit, log ++ [.writeStr s])
  | .dsField, [.opaque, .str s, .leaf a] => .ok (.opaque, log ++ [.fmtField (some s) a])
  | .dtField, [.opaque, .leaf a] => .ok (.opaque, log ++ [.fmtField none a])
  | .dsFinish, [.opaque] => .ok (.unit, log ++ [.finish])
  | .dtFinish, [.opaque] => .ok (.unit, log ++ [.finish])
  | .dsFinishNonExhaustive, [.opaque] => .ok (.unit, log ++ [.finishNonExhaustive])
  | _, _ => .stuck

def applyBinop {α} (op : BinOp) (a b : Val α) : Option (Val α) :=
  match op, a, b with
  | .eq, .disc k, .disc k' => some (.bool (k == k'))
  | .eq, .int n, .int m => some (.bool (n == m))
  | .add, .int n, .int m => some (.int (n + m))
  | _, _, _ => none

mutual
def eval {α} (cx : SemCtx α) (env : Env α) (log : Log α) : Expr → Res α
  | .litBool b => .ok (.bool b, log)
  | .litInt n => .ok (.int n, log)
  | .litStr s => .ok (.str s, log)
  | .var x =>
    match env.lookup x with
    | some v => .ok (v, log)
    | none => .stuck
  | .equal => .ok (.ord .eq, log)
  | .none_ => .ok (.optOrd none, log)
  | .unitCtor k => .ok (.adt k [], log)
  | .userDiscr k =>
    match cx.userDiscr k with
    | some n => .ok (.int n, log)
    | none => .stuck
  | .defaultCall k i => .ok (.leaf (cx.ops.default k i), log ++ [.defaultField k i])
  | .call f args => (evalList cx env log args).bind fun (vs, l) => applyFn cx f vs l
  | .callT f args => (evalList cx env log args).bind fun (vs, l) => applyFn cx f vs l
  | .selfCall f args =>
    (evalList cx env log args).bind fun (vs, l) =>
      match cx.impls f vs with
      | some v => .ok (v, l ++ [.selfCall f])
      | none => .stuck
  | .discFnCall body arg =>
    (eval cx env log arg).bind fun (v, l) => eval cx [(.this, v)] l body
  | .validateConst _ body => eval cx [] log body
  | .methodCall recv m =>
    (eval cx env log recv).bind fun (v, l) =>
      match v, m with
      | .place i (.leaf _), .zeroize => .ok (.unit, l ++ [.zeroize i .method])
      | .place i (.leaf _), .zeroizeOrOnDrop => .ok (.unit, l ++ [.zeroize i .orOnDrop])
      | _, _ => .stuck
  | .ref e => eval cx env log e
  | .refMut e => eval cx env log e
  | .deref e => eval cx env log e
  | .cast e _ =>
    (eval cx env log e).bind fun (v, l) =>
      match v with
      | .adt k _ => if cx.ti.fieldless then .ok (.int (cx.ti.discr k), l) else .stuck
      | .int n => .ok (.int n, l)
      | _ => .stuck
  | .binop .and a b =>
    (eval cx env log a).bind fun (v, l) =>
      match v with
      | .bool true => eval cx env l b
      | .bool false => .ok (.bool false, l)
      | _ => .stuck
  | .binop .or a b =>
    (eval cx env log a).bind fun (v, l) =>
      match v with
      | .bool true => .ok (.bool true, l)
      | .bool false => eval cx env l b
      | _ => .stuck
  | .binop .eq a b =>
    (eval cx env log a).bind fun (va, l) => (eval cx env l b).bind fun (vb, l') =>
      match applyBinop .eq va vb with
      | some v => .ok (v, l')
      | none => .stuck
  | .binop .add a b =>
    (eval cx env log a).bind fun (va, l) => (eval cx env l b).bind fun (vb, l') =>
      match applyBinop .add va vb with
      | some v => .ok (v, l')
      | none => .stuck
  | .paren e => eval cx env log e
  | .tuple es => (evalList cx env log es).bind fun (vs, l) => .ok (.tuple vs, l)
  | .ifElse c t e =>
    (eval cx env log c).bind fun (v, l) =>
      match v with
      | .bool true => eval cx env l t
      | .bool false => eval cx env l e
      | _ => .stuck
  | .match_ s arms => (eval cx env log s).bind fun (v, l) => evalArms cx env l v arms
  | .block stmts tail => (evalStmts cx env log stmts).bind fun (env', l) => eval cx env' l tail
  | .unsafe_ e => eval cx env log e
  | .ptrRead e ty =>
    (eval cx env log e).bind fun (v, l) =>
      match v with
      | .adt k _ => if cx.ti.reprInt = some ty then .ok (.int (cx.ti.discr k), l) else .ub
      | _ => .stuck
  | .ret e => (eval cx env log e).bind fun (v, l) => .ret v l
  | .structLit k fields => (evalFields cx env log fields).bind fun (vs, l) => .ok (.adt k vs, l)
  | .matches_ e p => (eval cx env log e).bind fun (v, l) => .ok (.bool (matchPat p v).isSome, l)
  | .unreachable => .panic
  | .unit => .ok (.unit, log)
  | .seq es =>
    match es with
    | [e] => eval cx env log e
    | _ => .stuck
def evalList {α} (cx : SemCtx α) (env : Env α) (log : Log α) : List Expr → Out α (List (Val α) × Log α)
  | [] => .ok ([], log)
  | e :: es =>
    (eval cx env log e).bind fun (v, l) => (evalList cx env l es).bind fun (vs, l') => .ok (v :: vs, l')
def evalArms {α} (cx : SemCtx α) (env : Env α) (log : Log α) (v : Val α) : List Arm → Res α
  | [] => .stuck
  | .mk p e _ :: arms =>
    match matchPat p v with
    | some b => eval cx (b ++ env) log e
    | none => evalArms cx env log v arms
def evalFields {α} (cx : SemCtx α) (env : Env α) (log : Log α) : List FieldInit → Out α (List (Val α) × Log α)
  | [] => .ok ([], log)
  | .mk _ e :: fs =>
    (eval cx env log e).bind fun (v, l) => (evalFields cx env l fs).bind fun (vs, l') => .ok (v :: vs, l')
def evalStmts {α} (cx : SemCtx α) (env : Env α) (log : Log α) : List Stmt → Out α (Env α × Log α)
  | [] => .ok (env, log)
  | .let_ p e :: rest =>
    (eval cx env log e).bind fun (v, l) =>
      match matchPat p v with
      | some b => evalStmts cx (b ++ env) l rest
      | none => .stuck
  | .semi e :: rest => (eval cx env log e).bind fun (_, l) => evalStmts cx env l rest
  | .ifRet c r :: rest =>
    (eval cx env log c).bind fun (v, l) =>
      match v with
      | .bool true => (eval cx env l r).bind fun (v', l') => .ret v' l'
      | .bool false => evalStmts cx env l rest
      | _ => .stuck
  | _ :: rest => evalStmts cx env log rest
end

/-- Run a method body: an early `return` is the result. -/
def Out.finish {α} : Res α → Res α
  | .ret v l => .ok (v, l)
  | o => o

/-- Evaluate a `fn` body with `self` (and `__other`) bound. -/
def runMethod {α} (cx : SemCtx α) (body : Expr) (self_ : Val α) (other : Option (Val α)) : Res α :=
  let env : Env α := [(.self_, self_), (.f, .opaque), (.state, .opaque)] ++
    (match other with
      | some o => [(Var.other, o)]
      | none => [])
  (eval cx env [] body).finish

end DW
