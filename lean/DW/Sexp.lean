import DW.Basic

/-!
# S-expression reader and decoders for the driver's line protocol

Trusted glue (not part of any theorem): turns one line of text into a
`RawItem`.  Grammar of the encoding: see `gen/items.py: to_sexp`.
-/

namespace DW

inductive Sexp where
  | atom (s : String)
  | list (xs : List Sexp)
  deriving Repr, Inhabited

namespace Sexp

partial def parseList (cs : List Char) (acc : List Sexp) : Option (List Sexp × List Char) :=
  match cs with
  | [] => none
  | ')' :: rest => some (acc.reverse, rest)
  | ' ' :: rest => parseList rest acc
  | '(' :: rest =>
    match parseList rest [] with
    | some (xs, rest') => parseList rest' (Sexp.list xs :: acc)
    | none => none
  | '"' :: rest =>
    let rec str (cs : List Char) (buf : List Char) : Option (String × List Char) :=
      match cs with
      | [] => none
      | '\\' :: c :: rest => str rest (c :: buf)
      | '"' :: rest => some (String.ofList buf.reverse, rest)
      | c :: rest => str rest (c :: buf)
    match str rest [] with
    | some (s, rest') => parseList rest' (Sexp.atom s :: acc)
    | none => none
  | cs =>
    let word := cs.takeWhile fun c => c != ' ' && c != '(' && c != ')'
    parseList (cs.drop word.length) (Sexp.atom (String.ofList word) :: acc)

/-- Parse one line holding one s-expression. -/
def parse (s : String) : Option Sexp :=
  match parseList (s.toList ++ [')']) [] with
  | some ([x], []) => some x
  | _ => none

end Sexp

open Sexp

def dBool : Sexp → Option Bool
  | .atom "1" => some true
  | .atom "0" => some false
  | _ => none

def dToks : Sexp → Option Toks
  | .list (.atom "t" :: xs) => xs.mapM fun x => match x with
    | .atom s => some s
    | _ => none
  | _ => none

def dIdent : Sexp → Option Ident
  | .list [.atom "id", .atom n, r] => do some ⟨n, ← dBool r⟩
  | _ => none

def dPath : Sexp → Option MPath
  | .list (.atom "p" :: l :: segs) => do some ⟨← dBool l, ← segs.mapM dIdent, none⟩
  | .list (.atom "pa" :: l :: .atom n :: t :: segs) => do
    some ⟨← dBool l, ← segs.mapM dIdent, some (← n.toNat?, ← dToks t)⟩
  | _ => none

def dNVal : Sexp → Option NVal
  | .list [.atom "path", p] => do some (.path (← dPath p))
  | .list [.atom "str", p] => do some (.strPath (← dPath p))
  | .atom "strbad" => some .strBad
  | .atom "other" => some .other
  | _ => none

partial def dMeta : Sexp → Option Meta
  | .list [.atom "path", p] => do some (.path (← dPath p))
  | .list [.atom "mlist", p, ok, .list inner] => do
    some (.list (← dPath p) (← dBool ok) (← inner.mapM dMeta))
  | .list [.atom "nv", p, v] => do some (.nameValue (← dPath p) (← dNVal v))
  | _ => none

def dElem : Sexp → Option Elem
  | .list [.atom "m", m] => do some (.ofMeta (← dMeta m))
  | .atom "comma" => some .comma
  | .atom "junk" => some .junk
  | _ => none

def dGElem : Sexp → Option GElem
  | .list [.atom "custom", t] => do some (.gen (.custom (← dToks t)))
  | .list [.atom "lifetime", t] => do some (.gen (.lifetimePred (← dToks t)))
  | .list [.atom "nobound", t] => do some (.gen (.noBound (← dToks t) none))
  | .list [.atom "param", t, i] => do some (.gen (.noBound (← dToks t) (some (← dIdent i))))
  | .list [.atom "bad", t] => do some (.gen (.bad (← dToks t)))
  | .atom "comma" => some .comma
  | .atom "junk" => some .junk
  | _ => none

def dBody : Sexp → Option DWBody
  | .list [.atom "notlist"] => some .notList
  | .list [.atom "list", .list es] => do some (.list (← es.mapM dElem) none)
  | .list [.atom "list", .list es, .list gs] => do
    some (.list (← es.mapM dElem) (some (← gs.mapM dGElem)))
  | _ => none

def dAttr : Sexp → Option RawAttr
  | .list [.atom "dw", b] => do some (.dw (← dBody b))
  | .list [.atom "dwq", p, b] => do some (.dwQualified (← dPath p) (← dBody b))
  | .list (.atom "repr" :: .atom "idents" :: is) => do some (.repr (.idents (← is.mapM dIdent)))
  | .list [.atom "repr", .atom "unparsable"] => some (.repr .unparsable)
  | .list [.atom "repr", .atom "notlist"] => some (.repr .notList)
  | .list [.atom "other"] => some .other
  | .list [.atom "bare", p] => do some (.bare (← dPath p))
  | _ => none

def dMember : Sexp → Option Member
  | .list [.atom "named", i] => do some (.named (← dIdent i))
  | .list [.atom "idx", .atom n] => do some (.unnamed (← n.toNat?))
  | _ => none

def dField : Sexp → Option RawField
  | .list [.atom "f", m, ty, .list bodies] => do
    some ⟨← bodies.mapM dBody, ← dMember m, ← dToks ty⟩
  | _ => none

def dShape : Sexp → Option Shape
  | .atom "named" => some .named
  | .atom "tuple" => some .tuple
  | .atom "unit" => some .unit
  | _ => none

def dDiscr : Sexp → Option (Option DiscrExpr)
  | .atom "none" => some none
  | .list [.atom "d", t, .atom v] => do some (some ⟨← dToks t, ← v.toInt?⟩)
  | _ => none

def dVariant : Sexp → Option RawVariant
  | .list [.atom "v", i, sh, .list bodies, .list fields, d] => do
    some ⟨← bodies.mapM dBody, ← dIdent i, ← dShape sh, ← fields.mapM dField, ← dDiscr d⟩
  | _ => none

def dParam : Sexp → Option GParam
  | .list [.atom "lt", n, b, c] => do some (.lifetime (← dToks n) (← dToks b) (← dBool c))
  | .list [.atom "ty", n, b, c] => do some (.type (← dIdent n) (← dToks b) (← dBool c))
  | .list [.atom "const", n, b, c] => do some (.const_ (← dIdent n) (← dToks b) (← dBool c))
  | _ => none

def dGenerics : Sexp → Option Generics
  | .list [.atom "g", .list ps, .list preds, tr] => do
    some ⟨← ps.mapM dParam, ← preds.mapM dToks, ← dBool tr⟩
  | _ => none

def dKind : Sexp → Option ItemKind
  | .atom "struct" => some .struct_
  | .atom "enum" => some .enum_
  | .atom "union" => some .union_
  | _ => none

def dItem : Sexp → Option RawItem
  | .list [.atom "item", k, i, g, .list attrs, .list vs] => do
    some ⟨← attrs.mapM dAttr, ← dKind k, ← dIdent i, ← dGenerics g, ← vs.mapM dVariant⟩
  | _ => none

def dCfg (s : String) : Option Cfg :=
  match s.toList with
  | [a, b, c, d] => some ⟨a == '1', b == '1', c == '1', d == '1'⟩
  | _ => none

end DW
