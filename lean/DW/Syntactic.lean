import DW.Gen

/-! # Syntactic predicates on the emitted fragment -/

namespace DW

mutual
/-- The expression contains an `unsafe` block. -/
def Expr.hasUnsafe : Expr → Bool
  | .unsafe_ _ => true
  | .call _ args | .callT _ args | .selfCall _ args | .tuple args | .seq args => Expr.anyUnsafe args
  | .discFnCall body arg => body.hasUnsafe || arg.hasUnsafe
  | .validateConst _ body => body.hasUnsafe
  | .methodCall e _ | .ref e | .refMut e | .deref e | .cast e _ | .paren e | .ptrRead e _ | .ret e
  | .matches_ e _ => e.hasUnsafe
  | .binop _ a b => a.hasUnsafe || b.hasUnsafe
  | .ifElse c t e => c.hasUnsafe || t.hasUnsafe || e.hasUnsafe
  | .match_ s arms => s.hasUnsafe || Arm.anyUnsafe arms
  | .block stmts tail => Stmt.anyUnsafe stmts || tail.hasUnsafe
  | .structLit _ fields => FieldInit.anyUnsafe fields
  | _ => false
def Expr.anyUnsafe : List Expr → Bool
  | [] => false
  | e :: es => e.hasUnsafe || Expr.anyUnsafe es
def Arm.anyUnsafe : List Arm → Bool
  | [] => false
  | .mk _ e _ :: arms => e.hasUnsafe || Arm.anyUnsafe arms
def FieldInit.anyUnsafe : List FieldInit → Bool
  | [] => false
  | .mk _ e :: fs => e.hasUnsafe || FieldInit.anyUnsafe fs
def Stmt.hasUnsafe : Stmt → Bool
  | .let_ _ e | .semi e | .validateDef _ e => e.hasUnsafe
  | .ifRet c r => c.hasUnsafe || r.hasUnsafe
  | .discFn _ validate body => Stmt.anyUnsafe validate || body.hasUnsafe
  | _ => false
def Stmt.anyUnsafe : List Stmt → Bool
  | [] => false
  | s :: ss => s.hasUnsafe || Stmt.anyUnsafe ss
end

end DW
