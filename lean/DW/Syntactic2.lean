import DW.Gen

/-! # Method-call syntax in the emitted fragment (C14) -/

namespace DW

mutual
/-- The expression contains a method call (`recv.method()`), i.e. a call that is
resolved by type-directed lookup instead of a fully qualified path. -/
def Expr.hasMethodCall : Expr → Bool
  | .methodCall _ _ => true
  | .unsafe_ e => e.hasMethodCall
  | .call _ args | .callT _ args | .selfCall _ args | .tuple args | .seq args => Expr.anyMethodCall args
  | .discFnCall body arg => body.hasMethodCall || arg.hasMethodCall
  | .validateConst _ body => body.hasMethodCall
  | .ref e | .refMut e | .deref e | .cast e _ | .paren e | .ptrRead e _ | .ret e
  | .matches_ e _ => e.hasMethodCall
  | .binop _ a b => a.hasMethodCall || b.hasMethodCall
  | .ifElse c t e => c.hasMethodCall || t.hasMethodCall || e.hasMethodCall
  | .match_ s arms => s.hasMethodCall || Arm.anyMethodCall arms
  | .block stmts tail => Stmt.anyMethodCall stmts || tail.hasMethodCall
  | .structLit _ fields => FieldInit.anyMethodCall fields
  | _ => false
def Expr.anyMethodCall : List Expr → Bool
  | [] => false
  | e :: es => e.hasMethodCall || Expr.anyMethodCall es
def Arm.anyMethodCall : List Arm → Bool
  | [] => false
  | .mk _ e _ :: arms => e.hasMethodCall || Arm.anyMethodCall arms
def FieldInit.anyMethodCall : List FieldInit → Bool
  | [] => false
  | .mk _ e :: fs => e.hasMethodCall || FieldInit.anyMethodCall fs
def Stmt.hasMethodCall : Stmt → Bool
  | .let_ _ e | .semi e | .validateDef _ e => e.hasMethodCall
  | .ifRet c r => c.hasMethodCall || r.hasMethodCall
  | .discFn _ validate body => Stmt.anyMethodCall validate || body.hasMethodCall
  | _ => false
def Stmt.anyMethodCall : List Stmt → Bool
  | [] => false
  | s :: ss => s.hasMethodCall || Stmt.anyMethodCall ss
end

end DW
