import DW.Validate
import DW.Render

/-!
# Stage 1: the attribute macro `derive_where` (`lib.rs: derive_where_internal`,
`input_without_derive_where_attributes`)

The item is given as a sequence of *segments*: attributes (item, variant and
field level, each marked with whether its path is exactly `derive_where`) and
the token runs between them, in source order.  `nItemAttrs` attribute segments
at the front are the item's own attributes.
-/

namespace DW

inductive Seg where
  /-- an attribute; `isDw`: its path is the identifier `derive_where` -/
  | attr (isDw : Bool) (toks : Toks)
  | toks (t : Toks)
  deriving Repr, Inhabited

def Seg.all : Seg → Toks
  | .attr _ t => t
  | .toks t => t

def dwRoot : MPath := ⟨true, [⟨"derive_where", false⟩], none⟩

/-- The search for the `crate = ..` option. -/
def findCrate : List RawAttr → Option MPath → R (Option MPath)
  | [], acc => .ok acc
  | .dw b :: rest, acc =>
    match b.parseNonEmpty with
    | .ok [m] =>
      if m.getPath.isIdent "crate" then
        match m with
        | .nameValue _ v =>
          match (match v with
            | .path p | .strPath p => Except.ok p
            | .strBad => .error Err.path
            | .other => .error Err.optionSyntax : R MPath) with
          | .error e => .error e
          | .ok p =>
            -- a path with generic arguments cannot head an attribute path (`fix:` commit in /repo)
            if p.args.isSome then .error Err.optionSyntax
            else if p = dwRoot then .error (.pathUnnecessary "::derive_where")
            else match acc with
              | some _ => .error (.optionDuplicate "crate")
              | none => findCrate rest (some p)
        | _ => .error .optionSyntax
      else findCrate rest acc
    | _ => findCrate rest acc
  | _ :: rest, acc => findCrate rest acc

def MPath.pushIdent (p : MPath) (s : String) : MPath := { p with segs := p.segs ++ [⟨s, false⟩] }

/-- `input_without_derive_where_attributes`: drop exactly the attributes whose
path is the identifier `derive_where`, at every level. -/
def stripDeriveWhere (segs : List Seg) : Toks :=
  segs.flatMap fun s => match s with
    | .attr true _ => []
    | s => s.all

/-- Split the leading `n` attribute segments off. -/
def splitItemAttrs : Nat → List Seg → List Seg × List Seg
  | 0, segs => ([], segs)
  | n + 1, s :: segs => let (a, b) := splitItemAttrs n segs; (s :: a, b)
  | _ + 1, [] => ([], [])

inductive Stage1Out where
  /-- tokens handed on to the derive macro -/
  | forward (toks : Toks)
  /-- error message and the re-emitted, cleaned item -/
  | failed (e : Err) (item : Toks)

/-- `derive_where` after it parsed `#[derive_where(attr)] item` as a `DeriveInput`. -/
def stage1 (raw : RawItem) (segs : List Seg) : Stage1Out :=
  match findCrate raw.attrs none with
  | .error e => .failed e (stripDeriveWhere segs)
  | .ok crate_ =>
    let root := crate_.getD dwRoot
    let visited := root.pushIdent "derive_where_visited"
    if raw.attrs.any (fun a => match a with
        | .bare p => p == visited
        | _ => false) then .failed .visited (stripDeriveWhere segs)
    else
      let (attrs, rest) := splitItemAttrs raw.attrs.length segs
      .forward (["#", "[", "derive", "("] ++ (root.pushIdent "DeriveWhere").toks ++ [")", "]"] ++
        attrs.flatMap Seg.all ++ (["#", "["] ++ visited.toks ++ ["]"]) ++ rest.flatMap Seg.all)

/-- `C16_stage1_item_kept`: on error the item is re-emitted with every
unqualified `derive_where` attribute removed and nothing else changed. -/
theorem C16_stage1_item_kept (raw : RawItem) (segs : List Seg) (e : Err) (item : Toks)
    (h : stage1 raw segs = .failed e item) :
    item = segs.flatMap (fun s => match s with
      | .attr true _ => []
      | s => s.all) := by
  unfold stage1 at h
  split at h
  · cases h; rfl
  · simp only at h
    split at h
    · cases h; rfl
    · cases h

theorem flatMap_all_split (n : Nat) (segs : List Seg) :
    (splitItemAttrs n segs).1.flatMap Seg.all ++ (splitItemAttrs n segs).2.flatMap Seg.all = segs.flatMap Seg.all := by
  induction n generalizing segs with
  | zero => simp [splitItemAttrs]
  | succ n ih =>
    cases segs with
    | nil => simp [splitItemAttrs]
    | cons s segs =>
      simp only [splitItemAttrs, List.flatMap_cons, List.append_assoc]
      rw [ih segs]

/-- `C16_stage1_forward`: on success nothing of the item is lost: the output is
`#[derive(<crate>::DeriveWhere)]`, the item's attributes, the visited marker and
the rest of the item, all tokens intact and in order. -/
theorem C16_stage1_forward (raw : RawItem) (segs : List Seg) (out : Toks)
    (h : stage1 raw segs = .forward out) :
    ∃ pre mid : Toks, ∃ a b : List Seg, a ++ b = segs ∧
      out = pre ++ a.flatMap Seg.all ++ mid ++ b.flatMap Seg.all := by
  unfold stage1 at h
  split at h
  · cases h
  · simp only at h
    split at h
    · cases h
    · rename_i crate_ _ _
      simp only [Stage1Out.forward.injEq] at h
      have hsplit : ∀ n (segs : List Seg), (splitItemAttrs n segs).1 ++ (splitItemAttrs n segs).2 = segs := by
        intro n
        induction n with
        | zero => intro segs; simp [splitItemAttrs]
        | succ n ih =>
          intro segs
          cases segs with
          | nil => simp [splitItemAttrs]
          | cons s segs => simp [splitItemAttrs, ih segs]
      exact ⟨["#", "[", "derive", "("] ++ ((crate_.getD dwRoot).pushIdent "DeriveWhere").toks ++ [")", "]"],
        ["#", "["] ++ ((crate_.getD dwRoot).pushIdent "derive_where_visited").toks ++ ["]"],
        (splitItemAttrs raw.attrs.length segs).1, (splitItemAttrs raw.attrs.length segs).2,
        hsplit _ _, h.symm⟩

end DW

namespace DW

/-- The attribute is a `#[derive_where(crate ..)]` option attribute (a single meta named `crate`). -/
def RawAttr.IsCrateOpt (a : RawAttr) : Prop :=
  ∃ b m, a = .dw b ∧ b.parseNonEmpty = .ok [m] ∧ m.getPath.isIdent "crate" = true

theorem findCrate_skip (a : RawAttr) (rest : List RawAttr) (acc : Option MPath) (h : ¬ a.IsCrateOpt) :
    findCrate (a :: rest) acc = findCrate rest acc := by
  cases a with
  | dw b =>
    simp only [findCrate]
    cases hp : b.parseNonEmpty with
    | error e => rfl
    | ok ms =>
      match ms with
      | [] => rfl
      | [m] =>
        simp only
        split
        · rename_i hc; exact absurd ⟨b, m, rfl, hp, hc⟩ h
        · rfl
      | _ :: _ :: _ => rfl
  | dwQualified _ _ => rfl
  | repr _ => rfl
  | bare _ => rfl
  | other => rfl

theorem findCrate_skip_all (pre rest : List RawAttr) (acc : Option MPath) (h : ∀ a ∈ pre, ¬ a.IsCrateOpt) :
    findCrate (pre ++ rest) acc = findCrate rest acc := by
  induction pre with
  | nil => rfl
  | cons a pre ih =>
    rw [List.cons_append, findCrate_skip a _ acc (h a (by simp))]
    exact ih (fun x hx => h x (by simp [hx]))

/-- **The `crate = path` option is found wherever it stands** among the item's attributes (before or after
attributes with bound lists, `#[repr]`, foreign attributes ..), and it then is the root of the paths of the
forwarded derive and of the visited marker. -/
theorem C14_crate_anywhere (pre post : List RawAttr) (b : DWBody) (cp p : MPath) (v : NVal)
    (hb : b.parseNonEmpty = .ok [.nameValue cp v]) (hcp : cp.isIdent "crate" = true)
    (hv : v = .path p ∨ v = .strPath p) (hp : p ≠ dwRoot) (hargs : p.args = none)
    (hpre : ∀ a ∈ pre, ¬ a.IsCrateOpt) (hpost : ∀ a ∈ post, ¬ a.IsCrateOpt) :
    findCrate (pre ++ .dw b :: post) none = .ok (some p) := by
  rw [findCrate_skip_all pre _ none hpre]
  have hpost' : findCrate post (some p) = .ok (some p) := by
    have := findCrate_skip_all post [] (some p) hpost
    simpa [findCrate] using this
  rcases hv with rfl | rfl <;> simp [findCrate, hb, Meta.getPath, hcp, hp, hargs, hpost']

/-- A `crate` path with generic arguments (`crate = foo::<u8>`, also inside a string) is refused with an ordinary
error wherever the option stands — it could not head the path of the `derive_where_visited` attribute (before the
`fix:` commit the macro panicked while building that attribute). -/
theorem C16_crate_args_rejected (pre post : List RawAttr) (b : DWBody) (cp p : MPath) (v : NVal)
    (hb : b.parseNonEmpty = .ok [.nameValue cp v]) (hcp : cp.isIdent "crate" = true)
    (hv : v = .path p ∨ v = .strPath p) (hargs : p.args.isSome = true)
    (hpre : ∀ a ∈ pre, ¬ a.IsCrateOpt) :
    findCrate (pre ++ .dw b :: post) none = .error .optionSyntax := by
  rw [findCrate_skip_all pre _ none hpre]
  rcases hv with rfl | rfl <;> simp [findCrate, hb, Meta.getPath, hcp, hargs]

/-- **The second visit.**  A later `#[<crate>::derive_where(..)]` attribute written with a qualified path makes rustc
invoke the attribute macro again, on the item as the first visit left it: with `#[<crate>::derive_where_visited]`
behind its attributes (`C16_stage1_forward`: the marker follows the item's own attributes).  Whatever else that item
carries, the macro refuses it with the documented "already applied" error and re-emits it without helper attributes;
nothing is derived twice. -/
theorem C16_second_visit (raw : RawItem) (segs : List Seg) (crate_ : Option MPath)
    (hc : findCrate raw.attrs none = .ok crate_)
    (hm : RawAttr.bare ((crate_.getD dwRoot).pushIdent "derive_where_visited") ∈ raw.attrs) :
    stage1 raw segs = .failed .visited (stripDeriveWhere segs) := by
  unfold stage1
  simp only [hc]
  have : (raw.attrs.any fun a => match a with
      | .bare p => p == (crate_.getD dwRoot).pushIdent "derive_where_visited"
      | _ => false) = true := by
    rw [List.any_eq_true]
    exact ⟨_, hm, by simp⟩
  simp [this]

end DW
