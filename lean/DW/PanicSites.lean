/-!
# The panic sites of the macro's source (C16)

Every `unreachable!`, `panic!`, `assert!`, `debug_assert!` (proc-macro crates are built with debug assertions in a `dev`
build), `.expect(..)` and `.unwrap()` of `src/` (tests and the hook excluded), as `(file, kind, message or condition)`.
`gen/tables.py` extracts the same list from the current source on every run and the kernel checks that the two are
equal (`panicSites_known`): a **new** panic site in the source is a broken obligation of C16 until it is either
modelled (`Err.panic` in `DW/Validate.lean` / `genPanic` in `DW/Gen.lean`, shown unreachable by `C16_no_panic_stage2`)
or argued unreachable here.

* **M** — modelled: the model raises `.panic` at the corresponding place, and `Input.fromInput_np` / `genPanic_none`
  prove it is never reached for any raw item over the model's alphabet.
* **S** — structural: the value inspected was built a few lines above by the same function or by its only caller in a
  shape that excludes the panic (a path the caller just matched on; a list whose length was just checked; a pattern the
  same module constructs). Not modelled; correspondences A (the hook catches panics and prints them) and C (rustc reports
  `custom attribute panicked` / `proc-macro derive panicked`) observe these sites on every item of every run.
-/

namespace DW

def knownPanicSites : List (String × String × String) := [
  -- S: `add_attribute` is only called by the dispatcher that matched on this very path
  ("src/attr/default.rs", "debug_assert", "meta.path().is_ident(Self::DEFAULT)"),
  ("src/attr/field.rs", "debug_assert", "meta.path().is_ident(DERIVE_WHERE)"),
  ("src/attr/incomparable.rs", "debug_assert", "meta.path().is_ident(Self::INCOMPARABLE)"),
  -- M: `DeriveWhere::from_attr` on an empty attribute (`Validate.lean`, `DeriveWhere.fromAttr`)
  ("src/attr/item.rs", "assert", "!input.is_empty()"),
  -- S: `nested.len() == 1` is the condition of the enclosing `if`
  ("src/attr/item.rs", "expect", "unexpected empty list"),
  ("src/attr/skip.rs", "debug_assert", "meta.path().is_ident(Self::SKIP) || meta.path().is_ident(Self::SKIP_INNER)"),
  -- S: the list was parsed by `parse_non_empty_nested_metas` from a `Meta::List`
  ("src/attr/skip.rs", "expect", "unexpected skip syntax"),
  -- S: `Skip::None` and `Skip::All` were handled by the two arms above
  ("src/attr/skip.rs", "unreachable", "unexpected variant"),
  ("src/attr/variant.rs", "debug_assert", "meta.path().is_ident(DERIVE_WHERE)"),
  ("src/attr/zeroize_fqs.rs", "debug_assert", "meta.path().is_ident(Trait::Zeroize.as_str())"),
  -- S: `Field::from_named` is called on the fields of `syn::FieldsNamed` only
  ("src/data/field.rs", "expect", "unexpected unnamed field"),
  -- S: the patterns are built by `Fields::struct_pattern` / `tuple_pattern` of the same module
  ("src/data/fields.rs", "unreachable", "unexpected pattern"),
  ("src/data/fields.rs", "unreachable", "unexpected pattern"),
  ("src/data/fields.rs", "unreachable", "unexpected pattern"),
  -- M: `Discriminant::parse` on `#[repr = ..]` / `#[repr]` (`Validate.lean`, `.repr .notList`)
  ("src/item.rs", "unreachable", "found invalid `repr` attribute"),
  -- S: `nested.len() == 1` is the condition of the enclosing `if` (stage 1)
  ("src/lib.rs", "expect", "unexpected empty list"),
  -- S: `build_incomparable_pattern` returns `Some` for more than one variant, which the enclosing branch established
  ("src/trait_/common_ord.rs", "expect", "there should be > 1 variants"),
  -- S: `Data::from_variant` never produces `DataType::Union`
  ("src/trait_/common_ord.rs", "unreachable", "enum variants cannot be unions"),
  -- S: `build_ord_*` are called from the `PartialOrd` and `Ord` generators only
  ("src/trait_/common_ord.rs", "unreachable", "unsupported trait in `build_ord`"),
  ("src/trait_/common_ord.rs", "unreachable", "unsupported trait in `prepare_ord`"),
  -- M: `genPanic` (`ordSinglePanic`)
  ("src/trait_/common_ord.rs", "unreachable", "we should only generate this code with multiple variants"),
  -- M: `genPanic` (`unionPanic`): unions derive `Clone` and `Copy` only (`C15_union_traits`)
  ("src/trait_/debug.rs", "unreachable", "unexpected trait for union"),
  ("src/trait_/default.rs", "unreachable", "unexpected trait for union"),
  ("src/trait_/hash.rs", "unreachable", "unexpected trait for union"),
  ("src/trait_/ord.rs", "unreachable", "unexpected trait for union"),
  ("src/trait_/partial_eq.rs", "unreachable", "unexpected trait for union"),
  ("src/trait_/partial_ord.rs", "unreachable", "unexpected trait for union"),
  -- S: the caller passes the result of `parse_non_empty_nested_metas`
  ("src/trait_/zeroize.rs", "debug_assert", "!list.is_empty()"),
  ("src/trait_/zeroize.rs", "unreachable", "unexpected trait for union"),
  ("src/trait_/zeroize_on_drop.rs", "debug_assert", "!list.is_empty()"),
  ("src/trait_/zeroize_on_drop.rs", "unreachable", "unexpected trait for union")]

end DW
