import DW.Basic

/-!
# Parsing and validation: the model of `Input::from_input`

Function for function mirror of `attr/*.rs`, `data.rs`, `data/*.rs`, `item.rs`
and `input.rs`, in the same evaluation order so that the *first* error is the
same error.  `R` is `Result<_, syn::Error>` with panics as a distinguished
error.
-/

namespace DW

abbrev R := Except Err

/-! ## `trait_.rs` -/

/-- `TraitImpl::as_str`. -/
def Trait.asStr : Trait → String
  | .clone => "Clone" | .copy => "Copy" | .debug => "Debug" | .default => "Default"
  | .eq => "Eq" | .hash => "Hash" | .ord => "Ord" | .partialEq => "PartialEq"
  | .partialOrd => "PartialOrd" | .zeroize => "Zeroize" | .zeroizeOnDrop => "ZeroizeOnDrop"

/-- `TraitImpl::supports_union`. -/
def Trait.supportsUnion : Trait → Bool
  | .clone | .copy => true
  | _ => false

/-- `Trait::from_path`. -/
def Trait.fromPath (c : Cfg) (p : MPath) : R Trait :=
  match p.getIdent with
  | some i =>
    if i.raw then .error .trait_ else
    match i.name with
    | "Clone" => .ok .clone
    | "Copy" => .ok .copy
    | "Debug" => .ok .debug
    | "Default" => .ok .default
    | "Eq" => .ok .eq
    | "Hash" => .ok .hash
    | "Ord" => .ok .ord
    | "PartialEq" => .ok .partialEq
    | "PartialOrd" => .ok .partialOrd
    | "Zeroize" => if c.zeroize then .ok .zeroize else .error .trait_
    | "ZeroizeOnDrop" => if c.zeroize then .ok .zeroizeOnDrop else .error .trait_
    | "crate" => .error .crate_
    | _ => .error .trait_
  | none => .error .trait_

/-! ## `util.rs` -/

/-- `Punctuated::<Meta, Token![,]>::parse_terminated` on the element stream. -/
def asMetas : List Elem → Option (List Meta)
  | [] => some []
  | [.ofMeta m] => some [m]
  | .ofMeta m :: .comma :: rest => (asMetas rest).map (m :: ·)
  | _ => none

/-- `MetaList::parse_args_with(parse_terminated)` on an attribute body. -/
def DWBody.nested : DWBody → Option (List Meta)
  | .list es none => asMetas es
  | _ => none

/-- `MetaListExt::parse_non_empty_nested_metas` on a nested list. -/
def parseNonEmpty (parsable : Bool) (inner : List Meta) : R (List Meta) :=
  if !parsable then .error .syn
  else if inner.isEmpty then .error .optionEmpty
  else .ok inner

/-- `MetaListExt::parse_non_empty_nested_metas` on an attribute. -/
def DWBody.parseNonEmpty (b : DWBody) : R (List Meta) :=
  match b.nested with
  | none => .error .syn
  | some [] => .error .optionEmpty
  | some ms => .ok ms

/-! ## `attr/skip.rs` -/

/-- `SkipGroup::from_path`. -/
def SkipGroup.fromPath (c : Cfg) (p : MPath) : R SkipGroup :=
  match p.getIdent with
  | some i =>
    if i.raw then .error .skipGroup else
    match i.name with
    | "Debug" => .ok .debug
    | "EqHashOrd" => .ok .eqHashOrd
    | "Hash" => .ok .hash
    | "Zeroize" => if c.zeroize then .ok .zeroize else .error .skipGroup
    | _ => .error .skipGroup
  | none => .error .skipGroup

def SkipGroup.asStr : SkipGroup → String
  | .debug => "Debug" | .eqHashOrd => "EqHashOrd" | .hash => "Hash" | .zeroize => "Zeroize"

/-- `SkipGroup::traits`. -/
def SkipGroup.traits : SkipGroup → List Trait
  | .debug => [.debug]
  | .eqHashOrd => [.eq, .hash, .ord, .partialEq, .partialOrd]
  | .hash => [.hash]
  | .zeroize => [.zeroize, .zeroizeOnDrop]

/-- `SkipGroup::trait_supported`. -/
def SkipGroup.traitSupported : Trait → Bool
  | .clone | .copy | .default => false
  | _ => true

/-- `Skip::trait_skipped`. -/
def Skip.traitSkipped (s : Skip) (t : Trait) : Bool :=
  match s with
  | .none => false
  | .all => SkipGroup.traitSupported t
  | .traits gs => gs.any fun g => g.traits.any (· == t)

/-- `Skip::group_skipped`. -/
def Skip.groupSkipped (s : Skip) (g : SkipGroup) : Bool :=
  match s with
  | .none => false
  | .all => true
  | .traits gs => gs.any (· == g)

/-- `DeriveWhere::contains`. -/
def DeriveWhere.contains (dw : DeriveWhere) (t : Trait) : Bool :=
  dw.traits.any (·.trait == t)

/-- `DeriveWhere::any_custom_bound`. -/
def DeriveWhere.anyCustomBound (dw : DeriveWhere) : Bool :=
  dw.generics.any fun g => match g with
    | .custom _ => true
    | .noBound _ _ => false

/-- `DeriveWhere::has_type_param`. -/
def DeriveWhere.hasTypeParam (dw : DeriveWhere) (i : Ident) : Bool :=
  dw.generics.any fun g => match g with
    | .noBound _ (some j) => j == i
    | _ => false

/-- `DeriveWhere::any_skip`. -/
def DeriveWhere.anySkip (dw : DeriveWhere) : Bool :=
  dw.traits.any fun t => SkipGroup.traitSupported t.trait

/-- `Some(skip_inner) if skip_inner.group_skipped(skip_group)`. -/
def parentCovers (skipInner : Option Skip) (g : SkipGroup) : Bool :=
  match skipInner with
  | .some s => s.groupSkipped g
  | .none => false

/-- The loop over the nested metas of `skip(..)` in `Skip::add_attribute`. -/
def Skip.addGroups (c : Cfg) (dws : List DeriveWhere) (skipInner : Option Skip) :
    List Meta → List SkipGroup → R (List SkipGroup)
  | [], acc => .ok acc
  | .path p :: rest, acc => do
    let g ← SkipGroup.fromPath c p
    if acc.contains g then .error (.optionSkipDuplicate g.asStr)
    else
      if parentCovers skipInner g then .error .optionSkipInner
      else if dws.any (fun dw => g.traits.any dw.contains) then
        Skip.addGroups c dws skipInner rest (acc ++ [g])
      else .error .optionSkipTrait
  | _ :: _, _ => .error .optionSyntax

/-- `Skip::add_attribute`. `name` is the option's own name (`skip` or
`skip_inner`), used by the duplicate message. -/
def Skip.addAttribute (c : Cfg) (self : Skip) (name : String) (dws : List DeriveWhere)
    (skipInner : Option Skip) (meta_ : Meta) : R Skip :=
  match meta_ with
  | .path _ =>
    match self with
    | .none =>
      match skipInner with
      | some Skip.all => .error .optionSkipInner
      | _ =>
        if dws.any DeriveWhere.anySkip then .ok .all
        else .error .optionSkipNoTrait
    | _ => .error (.optionDuplicate name)
  | .list _ parsable inner => do
    let nested ← parseNonEmpty parsable inner
    match self with
    | .none => do
      let gs ← Skip.addGroups c dws skipInner nested []
      .ok (.traits gs)
    | .all => .error .optionSkipAll
    | .traits gs0 => do
      let gs ← Skip.addGroups c dws skipInner nested gs0
      .ok (.traits gs)
  | .nameValue _ _ => .error .optionSyntax

/-! ## `attr/incomparable.rs`, `attr/default.rs`, `attr/zeroize_fqs.rs` -/

/-- The trait loop of `Incomparable::add_attribute`: `Err` at the first `Eq`
or `Ord`, otherwise whether a `PartialEq`/`PartialOrd` was seen. -/
def incomparableScan : List DeriveTrait → Bool → R Bool
  | [], seen => .ok seen
  | t :: rest, seen =>
    match t.trait with
    | .eq | .ord => .error .nonPartialIncomparable
    | .partialEq | .partialOrd => incomparableScan rest true
    | _ => incomparableScan rest seen

/-- `Incomparable::add_attribute`. -/
def Incomparable.addAttribute (self : Bool) (meta_ : Meta) (dws : List DeriveWhere) : R Bool :=
  match meta_ with
  | .path _ =>
    if self then .error (.optionDuplicate "incomparable")
    else do
      let implCmp ← incomparableScan (dws.flatMap (·.traits)) false
      if implCmp then .ok true else .error .incomparable
  | _ => .error .optionSyntax

/-- `Default::add_attribute`. -/
def Default.addAttribute (self : Bool) (meta_ : Meta) (dws : List DeriveWhere) : R Bool :=
  match meta_ with
  | .path _ =>
    if self then .error (.optionDuplicate "default")
    else if dws.any (·.contains .default) then .ok true
    else .error .default
  | _ => .error .optionSyntax

/-- The loop over `Zeroize(..)` options on a field. -/
def ZeroizeFqs.addOptions : List Meta → Bool → R Bool
  | [], self => .ok self
  | .path p :: rest, self =>
    if p.isIdent "fqs" then
      if self then .error (.optionDuplicate "fqs") else ZeroizeFqs.addOptions rest true
    else .error .option
  | _ :: _, _ => .error .optionSyntax

/-- `ZeroizeFqs::add_attribute`. -/
def ZeroizeFqs.addAttribute (self : Bool) (meta_ : Meta) (dws : List DeriveWhere) : R Bool :=
  if !dws.any (·.contains .zeroize) then .error .zeroize
  else match meta_ with
    | .list _ parsable inner => do
      let nested ← parseNonEmpty parsable inner
      ZeroizeFqs.addOptions nested self
    | .path _ => .error (.optionRequired "Zeroize")
    | .nameValue _ _ => .error .optionSyntax

/-! ## `trait_/zeroize.rs`, `trait_/zeroize_on_drop.rs`: `parse_derive_trait` -/

def zeroizeRoot : MPath := ⟨true, [⟨"zeroize", false⟩], none⟩

/-- Shared option loop of `Zeroize::parse_derive_trait` and
`ZeroizeOnDrop::parse_derive_trait` (`isZeroize` selects the `drop` special
case). -/
def parseZeroizeOptions (isZeroize : Bool) (name : String) :
    List Meta → Option MPath → R (Option MPath)
  | [], crate_ => .ok crate_
  | .path p :: _, _ =>
    if isZeroize && p.isIdent "drop" then .error .deprecatedZeroizeDrop
    else .error (.optionTrait name)
  | .nameValue p v :: rest, crate_ =>
    if p.isIdent "crate" then
      match crate_ with
      | none =>
        match v with
        | .path q | .strPath q =>
          if q = zeroizeRoot then .error (.pathUnnecessary "::zeroize")
          else parseZeroizeOptions isZeroize name rest (some q)
        | .strBad => .error .path
        | .other => .error .optionSyntax
      | some _ => .error (.optionDuplicate "crate")
    else .error (.optionTrait name)
  | .list _ _ _ :: _, _ => .error .optionSyntax

/-- `TraitImpl::parse_derive_trait`. -/
def Trait.parseDeriveTrait (t : Trait) (nested : List Meta) : R DeriveTrait :=
  match t with
  | .zeroize => do
    let c ← parseZeroizeOptions true "Zeroize" nested none
    .ok ⟨.zeroize, c⟩
  | .zeroizeOnDrop => do
    let c ← parseZeroizeOptions false "ZeroizeOnDrop" nested none
    .ok ⟨.zeroizeOnDrop, c⟩
  | t => .error (.options t.asStr)

/-! ## `attr/item.rs` -/

/-- `DeriveTrait::from_stream`, after `Meta::parse` succeeded. -/
def DeriveTrait.fromMeta (c : Cfg) (kind : ItemKind) (m : Meta) : R DeriveTrait := do
  let t ← Trait.fromPath c m.getPath
  if kind == .union_ && !t.supportsUnion then .error .union
  else match m with
    | .path _ => .ok ⟨t, none⟩
    | .list _ parsable inner => do
      let nested ← parseNonEmpty parsable inner
      t.parseDeriveTrait nested
    | .nameValue _ _ => .error .optionSyntax

/-- `Generic::parse`. -/
def Generic.parse : RawGeneric → R Generic
  | .custom t => .ok (.custom t)
  | .lifetimePred _ => .error .generic
  | .noBound t p => .ok (.noBound t p)
  | .bad _ => .error .genericSyntax

/-- `Punctuated::<Generic, Token![,]>::parse_terminated`. -/
def parseGenerics : List GElem → R (List Generic)
  | [] => .ok []
  | .gen g :: rest => do
    let g' ← Generic.parse g
    match rest with
    | [] => .ok [g']
    | .comma :: rest' => do
      let gs ← parseGenerics rest'
      .ok (g' :: gs)
    | _ => .error .syn
  | _ :: _ => .error .genericSyntax

/-- The `while !input.is_empty()` loop of `DeriveWhere::from_attr`. -/
def DeriveWhere.loop (c : Cfg) (kind : ItemKind) (gsOpt : Option (List GElem)) :
    List Elem → List DeriveTrait → R DeriveWhere
  | [], acc =>
    match gsOpt with
    | none => .ok ⟨acc, []⟩
    -- the next token is the `;`: `Meta::parse` fails on it
    | some _ => .error .traitSyntax
  | .ofMeta m :: rest, acc => do
    let t ← DeriveTrait.fromMeta c kind m
    let acc := acc ++ [t]
    match rest, gsOpt with
    | [], none => .ok ⟨acc, []⟩
    | [], some gs => do
      let g ← parseGenerics gs
      .ok ⟨acc, g⟩
    | [.comma], some gs => do
      let g ← parseGenerics gs
      .ok ⟨acc, g⟩
    | .comma :: rest', _ => DeriveWhere.loop c kind gsOpt rest' acc
    | _ :: _, _ => .error .deriveWhereDelimiter
  | _ :: _, _ => .error .traitSyntax

/-- `DeriveWhere::from_attr`. -/
def DeriveWhere.fromAttr (c : Cfg) (kind : ItemKind) (es : List Elem)
    (gsOpt : Option (List GElem)) : R DeriveWhere :=
  if es.isEmpty && gsOpt.isNone then .error (.panic "assertion failed: !input.is_empty()")
  else DeriveWhere.loop c kind gsOpt es []

/-- `Vec::dedup_by` with the merging closure of `ItemAttr::from_attrs`. -/
def dedupGo (cur : DeriveWhere) : List DeriveWhere → List DeriveWhere
  | [] => [cur]
  | d :: rest =>
    if d.generics = cur.generics then dedupGo { cur with traits := cur.traits ++ d.traits } rest
    else cur :: dedupGo d rest

def dedupMerge : List DeriveWhere → List DeriveWhere
  | [] => []
  | d :: rest => dedupGo d rest

/-- A trait occurs twice in one (merged) attribute. -/
def hasDup : List DeriveTrait → Bool
  | [] => false
  | t :: rest => rest.contains t || hasDup rest

/-- `attr/item.rs: struct ItemAttr`. -/
structure ItemAttr where
  skipInner : Skip
  incomparable : Bool
  deriveWheres : List DeriveWhere

/-- Accumulator of the first loop of `ItemAttr::from_attrs`. -/
structure AttrAcc where
  dws : List DeriveWhere := []
  skipInners : List Meta := []
  incomparables : List Meta := []

/-- Body of the first loop of `ItemAttr::from_attrs` for one attribute. -/
def ItemAttr.step (c : Cfg) (kind : ItemKind) (acc : AttrAcc) : RawAttr → R AttrAcc
  | .dw .notList => .error .optionSyntax
  | .dw (.list es gsOpt) =>
    match (DWBody.list es gsOpt).nested with
    | some [] => .error .empty
    | some [m] =>
      if m.getPath.isIdent "skip_inner" then
        if kind == .enum_ then .error .optionEnumSkipInner
        else .ok { acc with skipInners := acc.skipInners ++ [m] }
      else if m.getPath.isIdent "incomparable" then
        .ok { acc with incomparables := acc.incomparables ++ [m] }
      else if m.getPath.isIdent "crate" then .ok acc
      else do
        let dw ← DeriveWhere.fromAttr c kind es gsOpt
        .ok { acc with dws := acc.dws ++ [dw] }
    | _ => do
      let dw ← DeriveWhere.fromAttr c kind es gsOpt
      .ok { acc with dws := acc.dws ++ [dw] }
  | _ => .ok acc

def ItemAttr.steps (c : Cfg) (kind : ItemKind) : List RawAttr → AttrAcc → R AttrAcc
  | [], acc => .ok acc
  | a :: rest, acc => do
    let acc ← ItemAttr.step c kind acc a
    ItemAttr.steps c kind rest acc

def foldSkipInner (c : Cfg) (dws : List DeriveWhere) : List Meta → Skip → R Skip
  | [], s => .ok s
  | m :: rest, s => do
    let s ← Skip.addAttribute c s "skip_inner" dws none m
    foldSkipInner c dws rest s

def foldIncomparable (dws : List DeriveWhere) : List Meta → Bool → R Bool
  | [], s => .ok s
  | m :: rest, s => do
    let s ← Incomparable.addAttribute s m dws
    foldIncomparable dws rest s

/-- `ItemAttr::from_attrs`. -/
def ItemAttr.fromAttrs (c : Cfg) (kind : ItemKind) (attrs : List RawAttr) : R ItemAttr := do
  let acc ← ItemAttr.steps c kind attrs {}
  if acc.dws.isEmpty then .error .none
  else
    let dws := dedupMerge acc.dws
    if dws.any (fun dw => hasDup dw.traits) then .error .traitDuplicate
    else do
      let skipInner ← foldSkipInner c dws acc.skipInners .none
      let incomparable ← foldIncomparable dws acc.incomparables false
      .ok ⟨skipInner, incomparable, dws⟩

/-! ## `attr/field.rs`, `attr/variant.rs` -/

structure FieldAttr where
  skip : Skip := .none
  fqs : Bool := false

def FieldAttr.addMetas (c : Cfg) (dws : List DeriveWhere) (skipInner : Skip) :
    List Meta → FieldAttr → R FieldAttr
  | [], self => .ok self
  | m :: rest, self =>
    if m.getPath.isIdent "skip" then do
      let s ← Skip.addAttribute c self.skip "skip" dws (some skipInner) m
      FieldAttr.addMetas c dws skipInner rest { self with skip := s }
    else if c.zeroize && m.getPath.isIdent "Zeroize" then do
      let f ← ZeroizeFqs.addAttribute self.fqs m dws
      FieldAttr.addMetas c dws skipInner rest { self with fqs := f }
    else .error .option

/-- `FieldAttr::add_meta`. -/
def FieldAttr.addMeta (c : Cfg) (dws : List DeriveWhere) (skipInner : Skip) (self : FieldAttr)
    (b : DWBody) : R FieldAttr :=
  match b with
  | .notList => .error .optionSyntax
  | b => do
    let nested ← b.parseNonEmpty
    FieldAttr.addMetas c dws skipInner nested self

/-- `FieldAttr::from_attrs`. -/
def FieldAttr.fromAttrs (c : Cfg) (dws : List DeriveWhere) (skipInner : Skip) :
    List DWBody → FieldAttr → R FieldAttr
  | [], self => .ok self
  | b :: rest, self => do
    let self ← FieldAttr.addMeta c dws skipInner self b
    FieldAttr.fromAttrs c dws skipInner rest self

structure VariantAttr where
  default : Bool := false
  skipInner : Skip := .none
  incomparable : Bool := false

def VariantAttr.addMetas (c : Cfg) (dws : List DeriveWhere) (noFields : Bool) :
    List Meta → VariantAttr → R VariantAttr
  | [], self => .ok self
  | m :: rest, self =>
    if m.getPath.isIdent "skip_inner" then
      if noFields then .error .optionSkipEmpty
      else do
        let s ← Skip.addAttribute c self.skipInner "skip_inner" dws none m
        VariantAttr.addMetas c dws noFields rest { self with skipInner := s }
    else if m.getPath.isIdent "default" then do
      let d ← Default.addAttribute self.default m dws
      VariantAttr.addMetas c dws noFields rest { self with default := d }
    else if m.getPath.isIdent "incomparable" then do
      let i ← Incomparable.addAttribute self.incomparable m dws
      VariantAttr.addMetas c dws noFields rest { self with incomparable := i }
    else .error .option

/-- `VariantAttr::add_meta`. -/
def VariantAttr.addMeta (c : Cfg) (dws : List DeriveWhere) (noFields : Bool)
    (self : VariantAttr) (b : DWBody) : R VariantAttr :=
  match b with
  | .notList => .error .optionSyntax
  | b => do
    let nested ← b.parseNonEmpty
    VariantAttr.addMetas c dws noFields nested self

/-- `VariantAttr::from_attrs`. -/
def VariantAttr.fromAttrs (c : Cfg) (dws : List DeriveWhere) (noFields : Bool) :
    List DWBody → VariantAttr → R VariantAttr
  | [], self => .ok self
  | b :: rest, self => do
    let self ← VariantAttr.addMeta c dws noFields self b
    VariantAttr.fromAttrs c dws noFields rest self

/-! ## `data/field.rs`, `data/fields.rs`, `data.rs` -/

/-- `Field::from_field`. -/
def Field.fromField (c : Cfg) (dws : List DeriveWhere) (skipInner : Skip) (f : RawField) : R Field := do
  let a ← FieldAttr.fromAttrs c dws skipInner f.attrs {}
  .ok ⟨a.skip, a.fqs, f.member, f.ty⟩

/-- `Field::from_named` / `Field::from_unnamed`. -/
def Field.fromFields (c : Cfg) (dws : List DeriveWhere) (skipInner : Skip) :
    List RawField → R (List Field)
  | [] => .ok []
  | f :: rest => do
    let f' ← Field.fromField c dws skipInner f
    let rest' ← Field.fromFields c dws skipInner rest
    .ok (f' :: rest')

/-- `Field::skip`. -/
def Field.skipped (f : Field) (t : Trait) : Bool := f.skip.traitSkipped t

/-- `Data::from_struct` and `Data::from_union`. -/
def Data.fromStruct (c : Cfg) (dws : List DeriveWhere) (skipInner : Skip) (incomparable : Bool)
    (v : RawVariant) : R Data :=
  match v.shape with
  | .unit =>
    if incomparable then
      .ok ⟨skipInner, incomparable, v.ident, .unit, false, false, [], none⟩
    else .error .itemEmpty
  | shape =>
    if v.fields.isEmpty && !incomparable then .error .itemEmpty
    else do
      let fields ← Field.fromFields c dws skipInner v.fields
      .ok ⟨skipInner, incomparable, v.ident, shape, false, false, fields, none⟩

/-- The `Fields::from_named` / `from_unnamed` / unit cases of `Data::from_variant`. -/
def Data.variantFields (c : Cfg) (dws : List DeriveWhere) (skipInner : Skip) (v : RawVariant) : R (List Field) :=
  match v.shape with
  | .unit => .ok []
  | _ => Field.fromFields c dws skipInner v.fields

/-- `Data::from_variant`. -/
def Data.fromVariant (c : Cfg) (dws : List DeriveWhere) (v : RawVariant) : R Data := do
  let a ← VariantAttr.fromAttrs c dws v.fields.isEmpty v.attrs {}
  let fields ← Data.variantFields c dws a.skipInner v
  .ok ⟨a.skipInner, a.incomparable, v.ident, v.shape, true, a.default, fields,
    if c.nightly then none else v.discr⟩

def Data.fromVariants (c : Cfg) (dws : List DeriveWhere) : List RawVariant → R (List Data)
  | [] => .ok []
  | v :: rest => do
    let d ← Data.fromVariant c dws v
    let ds ← Data.fromVariants c dws rest
    .ok (d :: ds)

/-- `Fields::skip`: all fields are skipped (vacuously true without fields). -/
def Data.skip (d : Data) (t : Trait) : Bool :=
  d.skipInner.traitSkipped t ||
    (d.shape != .unit && d.fields.all (·.skipped t))

/-- `Data::any_skip_trait`. -/
def Data.anySkipTrait (d : Data) (t : Trait) : Bool :=
  d.skipInner.traitSkipped t || d.fields.any (·.skipped t)

/-- `Data::iter_fields`, with the position of each field in the variant. -/
def Data.iterFields (d : Data) (t : Trait) : List (Nat × Field) :=
  if d.skip t then [] else
    (d.fields.zipIdx.map fun (f, i) => (i, f)).filter fun p => !p.2.skipped t

/-- `Data::is_empty`. -/
def Data.isEmpty (d : Data) (t : Trait) : Bool := (d.iterFields t).isEmpty

/-- `Data::is_default`. -/
def Data.isDefault (d : Data) : Bool := if d.isVariant then d.default else true

/-! ## `item.rs` -/

def Item.ident : Item → Ident
  | .enum_ _ i _ _ => i
  | .item d => d.ident

def Item.isEnum : Item → Bool
  | .enum_ .. => true
  | .item _ => false

def Item.variants : Item → List Data
  | .enum_ _ _ _ vs => vs
  | .item d => [d]

/-- A multi-variant enum. -/
def Item.multi : Item → Bool
  | .enum_ _ _ _ vs => vs.length > 1
  | .item _ => false

/-- `Item::any_skip_trait`. -/
def Item.anySkipTrait (it : Item) (t : Trait) : Bool := it.variants.any (·.anySkipTrait t)

/-- `Item::any_fqs`. -/
def Item.anyFqs (it : Item) : Bool := it.variants.any fun d => d.fields.any (·.fqs)

/-- `Item::is_empty`. -/
def Item.isEmpty (it : Item) (t : Trait) : Bool := it.variants.all (·.isEmpty t)

/-- `Item::is_incomparable`. -/
def Item.isIncomparable : Item → Bool
  | .enum_ _ _ inc vs => inc || (!vs.isEmpty && vs.all (·.incomparable))
  | .item d => d.incomparable

/-- `Representation::parse`. -/
def IntTy.parse (i : Ident) : Option IntTy :=
  if i.raw then none else
  match i.name with
  | "u8" => some .u8 | "u16" => some .u16 | "u32" => some .u32 | "u64" => some .u64
  | "u128" => some .u128 | "usize" => some .usize | "i8" => some .i8 | "i16" => some .i16
  | "i32" => some .i32 | "i64" => some .i64 | "i128" => some .i128 | "isize" => some .isize
  | _ => none

/-- Inner loop of `Discriminant::parse` over the identifiers of one `repr`. -/
def reprIdents : List Ident → Option IntTy → R (Option IntTy)
  | [], acc => .ok acc
  | i :: rest, acc =>
    match IntTy.parse i with
    | some r => .ok (some r)
    | none =>
      if !i.raw && (i.name == "C" || i.name == "Rust" || i.name == "align") then reprIdents rest acc
      else .error .reprUnknown

/-- Outer loop of `Discriminant::parse` over the attributes. -/
def reprAttrs : List RawAttr → Option IntTy → R (Option IntTy)
  | [], acc => .ok acc
  | .repr (.idents is) :: rest, acc => do
    let acc ← reprIdents is acc
    reprAttrs rest acc
  | .repr .unparsable :: _, _ => .error .syn
  | .repr .notList :: _, _ => .error (.panic "found invalid `repr` attribute")
  | _ :: rest, acc => reprAttrs rest acc

/-- `Discriminant::parse`. -/
def Discriminant.parse (attrs : List RawAttr) (variants : List RawVariant) : R Discriminant :=
  if variants.length == 1 then .ok .single
  else do
    let hasRepr ← reprAttrs attrs none
    let isUnit := variants.all (·.fields.isEmpty)
    match hasRepr with
    | some r => .ok (if isUnit then .unitRepr r else .dataRepr r)
    | none =>
      if isUnit then .ok .unit
      else if variants.any (·.discr.isSome) then .error .reprDiscriminantInvalid
      else .ok .data

/-! ## `input.rs` -/

/-- The loop of `Input::from_input` that looks for `default` duplicates and for
`incomparable` on both item and variant; returns `found_default` and
`found_incomparable`. -/
def scanVariants (itemInc : Bool) : List Data → Bool → Bool → R (Bool × Bool)
  | [], fd, fi => .ok (fd, fi)
  | v :: rest, fd, fi =>
    if v.default && fd then .error .defaultDuplicate
    else if itemInc && v.incomparable then .error .incomparableOnItemAndVariant
    else scanVariants itemInc rest (fd || v.default) (fi || v.incomparable)

def typeParams (g : Generics) : List Ident :=
  g.params.filterMap fun p => match p with
    | .type n _ _ => some n
    | _ => none

/-- The inner `for (span, trait_)` loop of the use-case check: `true` means
`Error::use_case`. -/
def useCaseTraits (c : Cfg) (item : Item) (foundInc : Bool) : List DeriveTrait → Bool
  | [] => false
  | t :: rest =>
    if t.trait == .default && item.isEnum then useCaseTraits c item foundInc rest
    else if item.anySkipTrait t.trait then useCaseTraits c item foundInc rest
    else if foundInc then useCaseTraits c item foundInc rest
    else if c.zeroize && (t.trait == .zeroize || t.trait == .zeroizeOnDrop) && t.crate_.isSome then
      useCaseTraits c item foundInc rest
    else if c.zeroize && t.trait == .zeroize && item.anyFqs then useCaseTraits c item foundInc rest
    else true

/-- The `'outer` loop of the use-case check. -/
def useCaseViolation (c : Cfg) (g : Generics) (item : Item) (foundInc : Bool)
    (dws : List DeriveWhere) : Bool :=
  dws.any fun dw =>
    dw.generics.length == (typeParams g).length
    && !dw.anyCustomBound
    && (typeParams g).all dw.hasTypeParam
    && useCaseTraits c item foundInc dw.traits

/-- The `match &data` of `Input::from_input`: the item and `found_incomparable`. -/
def Input.buildItem (c : Cfg) (raw : RawItem) (attr : ItemAttr) : R (Item × Bool) :=
  let dws := attr.deriveWheres
  match raw.kind with
  | .enum_ => do
    let discriminant ← (if c.nightly then pure Discriminant.single
                        else Discriminant.parse raw.attrs raw.variants)
    let variants ← Data.fromVariants c dws raw.variants
    let found ← scanVariants attr.incomparable variants false attr.incomparable
    if !found.1 && dws.any (·.contains .default) then .error .defaultMissing
    else if !found.1 && !found.2 && variants.all (·.fields.isEmpty) then .error .itemEmpty
    else pure (Item.enum_ discriminant raw.ident attr.incomparable variants, found.2)
  | _ =>
    match raw.variants with
    | [v] => do
      let d ← Data.fromStruct c dws attr.skipInner attr.incomparable
        { v with shape := if raw.kind == .union_ then .union else v.shape }
      pure (Item.item d, attr.incomparable)
    | _ => .error (.panic "malformed struct")

/-- `Input::from_input`. -/
def Input.fromInput (c : Cfg) (raw : RawItem) : R Input := do
  let attr ← ItemAttr.fromAttrs c raw.kind raw.attrs
  let r ← Input.buildItem c raw attr
  if useCaseViolation c raw.generics r.1 r.2 attr.deriveWheres then .error .useCase
  else .ok ⟨attr.deriveWheres, raw.generics, r.1⟩

end DW
