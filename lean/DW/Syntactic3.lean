import DW.Gen

/-! # Which field bindings does the emitted fragment use? (C02, C06)

`usesBad ok e` = the expression mentions the binding (`__field_x`, `__other_field_x`), the default call or the `Eq`
assertion of some field `(k, i)` with `ok k i = false`.  A field that is never mentioned raises no trait obligation. -/

namespace DW

/-- The variable is the binding of a field that must not be used. -/
def Var.bad (ok : Nat → Nat → Bool) : Var → Bool
  | .selfField k i | .otherField k i => !ok k i
  | _ => false

mutual
def Expr.usesBad (ok : Nat → Nat → Bool) : Expr → Bool
  | .var x => x.bad ok
  | .defaultCall k i => !ok k i
  | .methodCall r _ => r.usesBad ok
  | .unsafe_ e => e.usesBad ok
  | .call _ args | .callT _ args | .selfCall _ args | .tuple args | .seq args => Expr.anyUsesBad ok args
  | .discFnCall body arg => body.usesBad ok || arg.usesBad ok
  | .validateConst _ body => body.usesBad ok
  | .ref e | .refMut e | .deref e | .cast e _ | .paren e | .ptrRead e _ | .ret e
  | .matches_ e _ => e.usesBad ok
  | .binop _ a b => a.usesBad ok || b.usesBad ok
  | .ifElse c t e => c.usesBad ok || t.usesBad ok || e.usesBad ok
  | .match_ s arms => s.usesBad ok || Arm.anyUsesBad ok arms
  | .block stmts tail => Stmt.anyUsesBad ok stmts || tail.usesBad ok
  | .structLit _ fields => FieldInit.anyUsesBad ok fields
  | _ => false
def Expr.anyUsesBad (ok : Nat → Nat → Bool) : List Expr → Bool
  | [] => false
  | e :: es => e.usesBad ok || Expr.anyUsesBad ok es
def Arm.anyUsesBad (ok : Nat → Nat → Bool) : List Arm → Bool
  | [] => false
  | .mk _ e _ :: arms => e.usesBad ok || Arm.anyUsesBad ok arms
def FieldInit.anyUsesBad (ok : Nat → Nat → Bool) : List FieldInit → Bool
  | [] => false
  | .mk _ e :: fs => e.usesBad ok || FieldInit.anyUsesBad ok fs
def Stmt.usesBad (ok : Nat → Nat → Bool) : Stmt → Bool
  | .assertEq k i => !ok k i
  | .let_ _ e | .semi e | .validateDef _ e => e.usesBad ok
  | .ifRet c r => c.usesBad ok || r.usesBad ok
  | .discFn _ validate body => Stmt.anyUsesBad ok validate || body.usesBad ok
  | _ => false
def Stmt.anyUsesBad (ok : Nat → Nat → Bool) : List Stmt → Bool
  | [] => false
  | s :: ss => s.usesBad ok || Stmt.anyUsesBad ok ss
end

end DW
