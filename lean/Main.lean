import DW.Render
import DW.Sexp
import DW.Message
import DW.Probe

/-!
# Driver: one request per line on stdin, one answer per line on stdout

`expand <cfg> <item sexp>` answers in the format of the hook's stage 2.
-/

open DW

def joinToks (ts : Toks) : String := ts.foldl (fun acc t => acc ++ t ++ " ") ""

def expandLine (c : Cfg) (raw : RawItem) : String :=
  match deriveWhere c raw with
  | .ok (inp, impls) =>
    impls.foldl (fun acc (t, ims) =>
      acc ++ " @@ " ++ t.trait.asStr ++ " " ++ joinToks (ims.flatMap (Impl.toks inp))) "ok"
  | .error e => if e.isPanic then "panic " ++ e.message c else "err " ++ e.message c

def handleSpec (line : String) : String :=
  match line.splitOn " ## " with
  | head :: queries =>
    match head.splitOn " " with
    | _ :: cfg :: rest =>
      match dCfg cfg, Sexp.parse (" ".intercalate rest) with
      | some c, some sx =>
        match dItem sx with
        | some raw => specLine c raw queries
        | none => "bad-item"
      | _, _ => "bad-request"
    | _ => "bad-request"
  | _ => "bad-request"

def handle (line : String) : String :=
  if line.startsWith "specq " then handleSpec line else
  match line.splitOn " " with
  | cmd :: cfg :: rest =>
    match dCfg cfg, Sexp.parse (" ".intercalate rest) with
    | some c, some sx =>
      match dItem sx with
      | some raw =>
        match cmd with
        | "expand" => expandLine c raw
        | _ => "bad-cmd"
      | none => "bad-item"
    | _, _ => "bad-request"
  | _ => "bad-request"

partial def loop (h : IO.FS.Stream) : IO Unit := do
  let line ← h.getLine
  if line.isEmpty then return ()
  IO.println (handle (line.dropRightWhile (· == '\n')))
  loop h

def main : IO Unit := do loop (← IO.getStdin)
