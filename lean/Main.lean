import DW.Render
import DW.Sexp
import DW.Message
import DW.Probe
import DW.Stage1
import DW.Typing

/-!
# Driver: one request per line on stdin, one answer per line on stdout

`expand <cfg> <item sexp>` answers in the format of the hook's stage 2.
-/

open DW

def joinToks (ts : Toks) : String := ts.foldl (fun acc t => acc ++ t ++ " ") ""

def expandLine (c : Cfg) (raw : RawItem) : String :=
  match deriveWhere c raw with
  | .ok (inp, impls) =>
    impls.foldl (fun acc (t, ims) =>
      acc ++ " @@ " ++ t.trait.asStr ++ " " ++ joinToks (ims.flatMap (Impl.toks inp))) "ok"
  | .error e => if e.isPanic then "panic " ++ e.message c else "err " ++ e.message c

/-- `typeq <cfg> <item>`: the model's static type checker on every generated method. -/
def typeLine (c : Cfg) (raw : RawItem) : String :=
  match deriveWhere c raw with
  | .ok (inp, impls) =>
    impls.foldl (fun acc (t, ims) =>
      acc ++ " @@ " ++ t.trait.asStr ++ " " ++
        (if ims.all fun im => im.methods.all (Method'.wellTyped inp.item) then "well-typed" else "ILL-TYPED")) "ok"
  | .error e => if e.isPanic then "panic" else "err"

def handleSpec (line : String) : String :=
  match line.splitOn " ## " with
  | head :: queries =>
    match head.splitOn " " with
    | _ :: cfg :: rest =>
      match dCfg cfg, Sexp.parse (" ".intercalate rest) with
      | some c, some sx =>
        match dItem sx with
        | some raw => specLine c raw queries
        | none => "bad-item"
      | _, _ => "bad-request"
    | _ => "bad-request"
  | _ => "bad-request"

def dSeg : Sexp → Option Seg
  | .list [.atom "a", d, t] => do some (.attr (← dBool d) (← dToks t))
  | .list [.atom "s", t] => do some (.toks (← dToks t))
  | _ => none

/-- `stage1 <cfg> <item> ## <segments>` -/
def handleStage1 (line : String) : String :=
  match line.splitOn " ## " with
  | [head, segs] =>
    match head.splitOn " " with
    | _ :: cfg :: rest =>
      match dCfg cfg, Sexp.parse (" ".intercalate rest), Sexp.parse segs with
      | some c, some sx, some (.list ss) =>
        match dItem sx, ss.mapM dSeg with
        | some raw, some segs =>
          match stage1 raw segs with
          | .forward t => "ok " ++ joinToks t
          | .failed e item => "err " ++ e.message c ++ " @@ " ++ joinToks item
        | _, _ => "bad-item"
      | _, _, _ => "bad-request"
    | _ => "bad-request"
  | _ => "bad-request"

def handle (line : String) : String :=
  if line.startsWith "specq " then handleSpec line else
  if line.startsWith "stage1 " then handleStage1 line else
  match line.splitOn " " with
  | cmd :: cfg :: rest =>
    match dCfg cfg, Sexp.parse (" ".intercalate rest) with
    | some c, some sx =>
      match dItem sx with
      | some raw =>
        match cmd with
        | "expand" => expandLine c raw
        | "typeq" => typeLine c raw
        | _ => "bad-cmd"
      | none => "bad-item"
    | _, _ => "bad-request"
  | _ => "bad-request"

partial def loop (h : IO.FS.Stream) : IO Unit := do
  let line ← h.getLine
  if line.isEmpty then return ()
  IO.println (handle (line.dropRightWhile (· == '\n')))
  loop h

def main : IO Unit := do loop (← IO.getStdin)
