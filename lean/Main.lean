import DW.Render
import DW.Sexp
import DW.Message
import DW.Probe
import DW.Stage1
import DW.Typing
import DW.Mutate

/-!
# Driver: one request per line on stdin, one answer per line on stdout

`expand <cfg> <item sexp>` answers in the format of the hook's stage 2.
-/

open DW

def joinToks (ts : Toks) : String := ts.foldl (fun acc t => acc ++ t ++ " ") ""

def expandLine (c : Cfg) (raw : RawItem) : String :=
  match deriveWhere c raw with
  | .ok (inp, impls) =>
    impls.foldl (fun acc (t, ims) =>
      acc ++ " @@ " ++ t.trait.asStr ++ " " ++ joinToks (ims.flatMap (Impl.toks inp))) "ok"
  | .error e => if e.isPanic then "panic " ++ e.message c else "err " ++ e.message c

/-- `typeq <cfg> <item>`: the model's static type checker on every generated method. -/
def typeLine (c : Cfg) (raw : RawItem) : String :=
  match deriveWhere c raw with
  | .ok (inp, impls) =>
    impls.foldl (fun acc (t, ims) =>
      acc ++ " @@ " ++ t.trait.asStr ++ " " ++
        (if ims.all fun im => im.methods.all (Method'.wellTyped inp.item) then "well-typed" else "ILL-TYPED")) "ok"
  | .error e => if e.isPanic then "panic" else "err"

/-- `typemut <cfg> <item> ## <seed> <count>`: the original and `count` mutants of every generated method, each with the
model's typing verdict and the tokens of the whole impl. -/
def typeMutLine (c : Cfg) (raw : RawItem) (seed count : Nat) : String :=
  match deriveWhere c raw with
  | .ok (inp, impls) =>
    impls.foldl (fun acc (t, ims) =>
      ims.foldl (fun acc im =>
        match im.methods with
        | [m] =>
          let one (tag : String) (body : Expr) : String :=
            let m' : Method' := { m with body := body }
            " @@ " ++ t.trait.asStr ++ " " ++ tag ++ " " ++
              (if m'.wellTyped inp.item then "well-typed" else "ill-typed") ++ " " ++
              joinToks (Impl.toks inp { im with methods := [m'] })
          (mutantsOf (mix seed acc.length) count m.body).foldl
            (fun acc (kind, b) => acc ++ one ("m" ++ toString kind) b) (acc ++ one "orig" m.body)
        | _ =>
          -- marker impls (`Copy`, `ZeroizeOnDrop`): no body to type, but siblings need them
          acc ++ " @@ " ++ t.trait.asStr ++ " orig well-typed " ++ joinToks (Impl.toks inp im)) acc) "ok"
  | .error e => if e.isPanic then "panic" else "err"

def handleTypeMut (line : String) : String :=
  match line.splitOn " ## " with
  | [head, args] =>
    match head.splitOn " ", args.splitOn " " with
    | _ :: cfg :: rest, [seed, count] =>
      match dCfg cfg, Sexp.parse (" ".intercalate rest), seed.toNat?, count.toNat? with
      | some c, some sx, some s, some n =>
        match dItem sx with
        | some raw => typeMutLine c raw s n
        | none => "bad-item"
      | _, _, _, _ => "bad-request"
    | _, _ => "bad-request"
  | _ => "bad-request"

def handleSpec (line : String) : String :=
  match line.splitOn " ## " with
  | head :: queries =>
    match head.splitOn " " with
    | _ :: cfg :: rest =>
      match dCfg cfg, Sexp.parse (" ".intercalate rest) with
      | some c, some sx =>
        match dItem sx with
        | some raw => specLine c raw queries
        | none => "bad-item"
      | _, _ => "bad-request"
    | _ => "bad-request"
  | _ => "bad-request"

def dSeg : Sexp → Option Seg
  | .list [.atom "a", d, t] => do some (.attr (← dBool d) (← dToks t))
  | .list [.atom "s", t] => do some (.toks (← dToks t))
  | _ => none

/-- `stage1 <cfg> <item> ## <segments>` -/
def handleStage1 (line : String) : String :=
  match line.splitOn " ## " with
  | [head, segs] =>
    match head.splitOn " " with
    | _ :: cfg :: rest =>
      match dCfg cfg, Sexp.parse (" ".intercalate rest), Sexp.parse segs with
      | some c, some sx, some (.list ss) =>
        match dItem sx, ss.mapM dSeg with
        | some raw, some segs =>
          match stage1 raw segs with
          | .forward t => "ok " ++ joinToks t
          | .failed e item => "err " ++ e.message c ++ " @@ " ++ joinToks item
        | _, _ => "bad-item"
      | _, _, _ => "bad-request"
    | _ => "bad-request"
  | _ => "bad-request"

def handle (line : String) : String :=
  if line.startsWith "specq " then handleSpec line else
  if line.startsWith "typemut " then handleTypeMut line else
  if line.startsWith "stage1 " then handleStage1 line else
  match line.splitOn " " with
  | cmd :: cfg :: rest =>
    match dCfg cfg, Sexp.parse (" ".intercalate rest) with
    | some c, some sx =>
      match dItem sx with
      | some raw =>
        match cmd with
        | "expand" => expandLine c raw
        | "typeq" => typeLine c raw
        | _ => "bad-cmd"
      | none => "bad-item"
    | _, _ => "bad-request"
  | _ => "bad-request"

partial def loop (h : IO.FS.Stream) : IO Unit := do
  let line ← h.getLine
  if line.isEmpty then return ()
  IO.println (handle (line.dropRightWhile (· == '\n')))
  loop h

def main : IO Unit := do loop (← IO.getStdin)
